"""E3 - regular-language engine over Python ``re`` syntax trees.

``re._parser.parse`` is used for *syntax only*; languages are decided with
epsilon-NFAs over character *interval sets* and an on-the-fly product/subset
construction.  Supported: literals, classes, categories (\\d \\s \\w and
negations, str or bytes/ASCII semantics), ``.``, groups, alternation, greedy and
lazy repeats, ``$``/``\\Z`` at the end and ``^``/``\\A`` at the very start of a
pattern.  Everything else raises AnalysisError (never a silent pass).
"""
import bisect
import collections
import re._constants as sc
import re._parser as sp
import sys

from .model import AnalysisError

MAXC = sys.maxunicode


# ---------------------------------------------------------------------------
# interval sets
# ---------------------------------------------------------------------------
class CS:
    """Immutable set of code points as sorted disjoint closed intervals."""
    __slots__ = ('iv', '_h')

    def __init__(self, iv):
        self.iv = tuple(iv)
        self._h = hash(self.iv)

    @staticmethod
    def of(points):
        pts = sorted(set(points))
        iv = []
        for p in pts:
            if iv and iv[-1][1] == p - 1:
                iv[-1][1] = p
            else:
                iv.append([p, p])
        return CS(tuple(map(tuple, iv)))

    @staticmethod
    def norm(iv):
        iv = sorted(iv)
        out = []
        for a, b in iv:
            if a > b:
                continue
            if out and a <= out[-1][1] + 1:
                out[-1][1] = max(out[-1][1], b)
            else:
                out.append([a, b])
        return CS(tuple(map(tuple, out)))

    def __hash__(self):
        return self._h

    def __eq__(self, o):
        return self.iv == o.iv

    def __contains__(self, c):
        i = bisect.bisect_right(self.iv, (c, MAXC + 1)) - 1
        return i >= 0 and self.iv[i][0] <= c <= self.iv[i][1]

    def __or__(self, o):
        return CS.norm(self.iv + o.iv)

    def complement(self, top):
        out = []
        prev = 0
        for a, b in self.iv:
            if a > prev:
                out.append((prev, a - 1))
            prev = b + 1
        if prev <= top:
            out.append((prev, top))
        return CS(tuple(out))

    def __and__(self, o):
        out = []
        for a, b in self.iv:
            for c, d in o.iv:
                lo, hi = max(a, c), min(b, d)
                if lo <= hi:
                    out.append((lo, hi))
        return CS.norm(out)

    def __bool__(self):
        return bool(self.iv)

    def first(self):
        return self.iv[0][0]

    def __repr__(self):
        return 'CS(%s)' % ','.join('%x-%x' % i if i[0] != i[1] else '%x' % i[0] for i in self.iv[:8])


_CAT_CACHE = {}


def _category(name, ascii_only, top):
    key = (name, ascii_only, top)
    if key in _CAT_CACHE:
        return _CAT_CACHE[key]
    base = name.replace('CATEGORY_', '').replace('UNI_', '').replace('LOC_', '')
    neg = base.startswith('NOT_')
    base = base.replace('NOT_', '')
    if ascii_only or top <= 255:
        table = {
            'DIGIT': CS.of(range(0x30, 0x3a)),
            'SPACE': CS.of([9, 10, 11, 12, 13, 32]),
            'WORD': CS.of(list(range(0x30, 0x3a)) + list(range(0x41, 0x5b)) + list(range(0x61, 0x7b)) + [0x5f]),
        }
        cs = table[base]
    else:
        pred = {'DIGIT': str.isdecimal, 'SPACE': str.isspace,
                'WORD': lambda c: c.isalnum() or c == '_'}[base]
        iv = []
        start = None
        for cp in range(MAXC + 1):
            if pred(chr(cp)):
                if start is None:
                    start = cp
            elif start is not None:
                iv.append((start, cp - 1))
                start = None
        if start is not None:
            iv.append((start, MAXC))
        cs = CS(tuple(iv))
    if neg:
        cs = cs.complement(top)
    _CAT_CACHE[key] = cs
    return cs


# ---------------------------------------------------------------------------
# NFA
# ---------------------------------------------------------------------------
END = 'END'      # end-of-input assertion
BEGIN = 'BEGIN'  # start-of-input assertion


class NFA:
    def __init__(self, top=MAXC):
        self.n = 0
        self.eps = collections.defaultdict(set)
        self.tr = collections.defaultdict(list)    # state -> [(CS | END | BEGIN, state)]
        self.top = top
        self.start = None
        self.final = None
        self.source = None

    def new(self):
        self.n += 1
        return self.n - 1

    def charsets(self):
        out = set()
        for lst in self.tr.values():
            for cs, _ in lst:
                if isinstance(cs, CS):
                    out.add(cs)
        return out


class _Builder:
    def __init__(self, nfa, flags):
        self.nfa = nfa
        self.flags = flags
        self.ascii = bool(flags & sc.SRE_FLAG_ASCII) or nfa.top <= 255
        self.icase = bool(flags & sc.SRE_FLAG_IGNORECASE)
        if self.icase:
            raise AnalysisError('IGNORECASE is not supported by the regex engine')

    def lit(self, c):
        return CS(((c, c),))

    def charset(self, items):
        neg = False
        cs = CS(())
        for op, av in items:
            if op is sc.NEGATE:
                neg = True
            elif op is sc.LITERAL:
                cs = cs | self.lit(av)
            elif op is sc.RANGE:
                cs = cs | CS(((av[0], av[1]),))
            elif op is sc.CATEGORY:
                cs = cs | _category(str(av), self.ascii, self.nfa.top)
            else:
                raise AnalysisError('unsupported character-class item %s' % (op,))
        return cs.complement(self.nfa.top) if neg else cs

    def build(self, tree, at_start=False):
        nfa = self.nfa
        a = nfa.new()
        cur = a
        items = list(tree)
        for idx, (op, av) in enumerate(items):
            if op is sc.LITERAL:
                z = nfa.new()
                nfa.tr[cur].append((self.lit(av), z))
                cur = z
            elif op is sc.NOT_LITERAL:
                z = nfa.new()
                nfa.tr[cur].append((self.lit(av).complement(nfa.top), z))
                cur = z
            elif op is sc.ANY:
                z = nfa.new()
                cs = CS(()).complement(nfa.top)
                if not self.flags & sc.SRE_FLAG_DOTALL:
                    cs = self.lit(10).complement(nfa.top)
                nfa.tr[cur].append((cs, z))
                cur = z
            elif op is sc.IN:
                z = nfa.new()
                nfa.tr[cur].append((self.charset(av), z))
                cur = z
            elif op is sc.BRANCH:
                z = nfa.new()
                for alt in av[1]:
                    s, e = self.build(alt)
                    nfa.eps[cur].add(s)
                    nfa.eps[e].add(z)
                cur = z
            elif op is sc.SUBPATTERN:
                add_fl, del_fl = av[1] or 0, av[2] or 0
                if (add_fl | del_fl) & ~(sc.SRE_FLAG_VERBOSE | sc.SRE_FLAG_DOTALL | sc.SRE_FLAG_MULTILINE):
                    raise AnalysisError('inline flags in group are not supported')
                # VERBOSE has already been consumed by the parser; DOTALL / MULTILINE are read from self.flags below
                saved = self.flags
                self.flags = (self.flags | add_fl) & ~del_fl
                try:
                    s, e = self.build(av[3])
                finally:
                    self.flags = saved
                nfa.eps[cur].add(s)
                cur = e
            elif op in (sc.MAX_REPEAT, sc.MIN_REPEAT) or str(op) == 'POSSESSIVE_REPEAT':
                lo, hi, sub = av
                for _ in range(lo):
                    s, e = self.build(sub)
                    nfa.eps[cur].add(s)
                    cur = e
                if hi == sc.MAXREPEAT:
                    s, e = self.build(sub)
                    z = nfa.new()
                    nfa.eps[cur].add(s)
                    nfa.eps[e].add(s)
                    nfa.eps[e].add(z)
                    nfa.eps[cur].add(z)
                    cur = z
                else:
                    z = nfa.new()
                    nfa.eps[cur].add(z)
                    for _ in range(hi - lo):
                        s, e = self.build(sub)
                        nfa.eps[cur].add(s)
                        nfa.eps[e].add(z)
                        cur = e
                    cur = z
            elif op is sc.AT:
                if av in (sc.AT_END, sc.AT_END_STRING):
                    if av is sc.AT_END and self.flags & sc.SRE_FLAG_MULTILINE:
                        raise AnalysisError('$ with MULTILINE is not supported')
                    z = nfa.new()
                    nfa.tr[cur].append((END, z))
                    cur = z
                elif av in (sc.AT_BEGINNING, sc.AT_BEGINNING_STRING):
                    if av is sc.AT_BEGINNING and self.flags & sc.SRE_FLAG_MULTILINE:
                        raise AnalysisError('^ with MULTILINE is not supported')
                    z = nfa.new()
                    nfa.tr[cur].append((BEGIN, z))
                    cur = z
                else:
                    raise AnalysisError('unsupported assertion %s' % (av,))
            else:
                raise AnalysisError('unsupported regex construct %s' % (op,))
        return a, cur


def compile_nfa(pattern, flags=0):
    """pattern: str or bytes regex source -> NFA whose language is the set of strings it *fully* matches.
    (``$`` is treated as ``\\Z``: the optional trailing newline tolerance of ``$`` is not modelled.)"""
    top = 255 if isinstance(pattern, (bytes, bytearray)) else MAXC
    try:
        tree = sp.parse(pattern, flags)
    except Exception as e:
        raise AnalysisError('cannot parse regex %r: %s' % (pattern, e))
    flags = tree.state.flags
    nfa = NFA(top)
    b = _Builder(nfa, flags)
    nfa.start, nfa.final = b.build(tree)
    nfa.source = pattern
    return nfa


# -- combinators on NFAs (fresh copies are not needed: build from pattern pieces) ------------
def concat(*nfas):
    out = NFA(nfas[0].top)
    cur = out.new()
    out.start = cur
    for n in nfas:
        off = out.n
        out.n += n.n
        for s, ts in n.eps.items():
            out.eps[s + off] |= {t + off for t in ts}
        for s, lst in n.tr.items():
            out.tr[s + off] += [(cs, t + off) for cs, t in lst]
        out.eps[cur].add(n.start + off)
        cur = n.final + off
    out.final = cur
    return out


def union(*nfas):
    out = NFA(nfas[0].top)
    a = out.new()
    z = out.new()
    for n in nfas:
        off = out.n
        out.n += n.n
        for s, ts in n.eps.items():
            out.eps[s + off] |= {t + off for t in ts}
        for s, lst in n.tr.items():
            out.tr[s + off] += [(cs, t + off) for cs, t in lst]
        out.eps[a].add(n.start + off)
        out.eps[n.final + off].add(z)
    out.start, out.final = a, z
    return out


def star(n):
    out = union(n)
    out.eps[out.start].add(out.final)
    out.eps[out.final].add(out.start)
    return out


def sigma_star(top=MAXC):
    out = NFA(top)
    a = out.new()
    out.tr[a].append((CS(()).complement(top), a))
    out.start = out.final = a
    return out


# ---------------------------------------------------------------------------
# decision procedures
# ---------------------------------------------------------------------------
class _Run:
    """Subset simulation of one NFA.  A configuration is (frozenset of states, at_begin flag)."""

    def __init__(self, nfa):
        self.nfa = nfa

    def closure(self, S, at_begin):
        nfa = self.nfa
        S = set(S)
        st = list(S)
        while st:
            x = st.pop()
            for y in nfa.eps[x]:
                if y not in S:
                    S.add(y)
                    st.append(y)
            if at_begin:
                for cs, y in nfa.tr[x]:
                    if cs is BEGIN and y not in S:
                        S.add(y)
                        st.append(y)
        return frozenset(S)

    def initial(self):
        return self.closure([self.nfa.start], True)

    def step(self, S, c):
        T = set()
        for x in S:
            for cs, y in self.nfa.tr[x]:
                if isinstance(cs, CS) and c in cs:
                    T.add(y)
        return self.closure(T, False)

    def accepting(self, S):
        nfa = self.nfa
        S = set(S)
        st = list(S)
        while st:
            x = st.pop()
            if x == nfa.final:
                return True
            for y in nfa.eps[x]:
                if y not in S:
                    S.add(y)
                    st.append(y)
            for cs, y in nfa.tr[x]:
                if cs is END and y not in S:
                    S.add(y)
                    st.append(y)
        return nfa.final in S


def atoms(nfas):
    """Representatives of the coarsest partition of the alphabet that all character sets respect."""
    top = min(n.top for n in nfas)
    cuts = {0, top + 1}
    for n in nfas:
        for cs in n.charsets():
            for a, b in cs.iv:
                cuts.add(a)
                cuts.add(b + 1)
    pts = sorted(c for c in cuts if c <= top)
    return pts


def _search(nfas, bad, maxstates=400000):
    """BFS over the product of subset simulations; ``bad(accept_flags)`` marks a witness state."""
    runs = [_Run(n) for n in nfas]
    ats = atoms(nfas)
    start = tuple(r.initial() for r in runs)
    seen = {start: None}
    q = collections.deque([start])
    while q:
        cur = q.popleft()
        if bad(tuple(r.accepting(S) for r, S in zip(runs, cur))):
            w = []
            k = cur
            while seen[k] is not None:
                k, ch = seen[k]
                w.append(ch)
            return ''.join(reversed(w))
        for c in ats:
            nxt = tuple(r.step(S, c) for r, S in zip(runs, cur))
            if not nxt[0] and nfas and all(not x for x in nxt):
                continue
            if nxt not in seen:
                seen[nxt] = (cur, chr(c))
                if len(seen) > maxstates:
                    raise AnalysisError('regular-language product exceeded %d states' % maxstates)
                q.append(nxt)
    return None


def included(A, B):
    """L(A) subset L(B)?  None, or the shortest witness string in L(A) - L(B)."""
    return _search([A, B], lambda f: f[0] and not f[1])


def equivalent(A, B):
    w = included(A, B)
    if w is not None:
        return ('only-left', w)
    w = included(B, A)
    if w is not None:
        return ('only-right', w)
    return None


def intersect_witness(A, B):
    """A string in L(A) & L(B), or None when the intersection is empty."""
    return _search([A, B], lambda f: f[0] and f[1])


def nonempty_witness(A):
    return _search([A], lambda f: f[0])


def finite_language(A, limit=5000, maxlen=12):
    """Enumerate L(A) when finite and small; raises AnalysisError otherwise."""
    run = _Run(A)
    ats = atoms([A])
    out = []
    frontier = [('', run.initial())]
    for L in range(maxlen + 1):
        nxt = []
        for w, S in frontier:
            if run.accepting(S):
                out.append(w)
            for c in ats:
                T = run.step(S, c)
                if T:
                    nxt.append((w + chr(c), T))
        frontier = nxt
        if not frontier:
            return out
        if len(frontier) + len(out) > limit:
            raise AnalysisError('language too large to enumerate')
    raise AnalysisError('language not finite within length %d' % maxlen)


def first_chars(A):
    """Set of characters (as CS) that can start a non-empty word of L(A); and whether '' in L(A)."""
    run = _Run(A)
    S = run.initial()
    cs = CS(())
    for x in S:
        for c, y in A.tr[x]:
            if isinstance(c, CS):
                # only count if the final state is reachable afterwards (cheap check skipped: NFAs built
                # from regex syntax have no dead states except after END)
                cs = cs | c
    return cs, run.accepting(S)


# ---------------------------------------------------------------------------
# backtracking matcher (Python's ordered-choice semantics) for finite checks
# ---------------------------------------------------------------------------
def bt_match(pattern, string, flags=0, pos=0):
    """Length of the match Python's engine would produce for ``re.match(pattern, string[pos:])``
    (ordered alternation, greedy/lazy repeats, backtracking), or None.  Written against the
    re syntax tree; used to decide which *token* a given input produces."""
    tree = sp.parse(pattern, flags)
    fl = tree.state.flags
    top = 255 if isinstance(pattern, (bytes, bytearray)) else MAXC
    nfa = NFA(top)
    b = _Builder(nfa, fl)
    s = string
    n = len(s)

    def code(i):
        c = s[i]
        return c if isinstance(c, int) else ord(c)

    def m(items, k, i, cont):
        """match items[k:] at i, then cont(i)."""
        if k == len(items):
            return cont(i)
        op, av = items[k]
        nxt = lambda j: m(items, k + 1, j, cont)
        if op is sc.LITERAL:
            return nxt(i + 1) if i < n and code(i) == av else None
        if op is sc.NOT_LITERAL:
            return nxt(i + 1) if i < n and code(i) != av else None
        if op is sc.ANY:
            return nxt(i + 1) if i < n and (fl & sc.SRE_FLAG_DOTALL or code(i) != 10) else None
        if op is sc.IN:
            return nxt(i + 1) if i < n and code(i) in b.charset(av) else None
        if op is sc.BRANCH:
            for alt in av[1]:
                r = m(list(alt), 0, i, nxt)
                if r is not None:
                    return r
            return None
        if op is sc.SUBPATTERN:
            return m(list(av[3]), 0, i, nxt)
        if op in (sc.MAX_REPEAT, sc.MIN_REPEAT):
            lo, hi, sub = av
            sub = list(sub)

            def rep(count, j):
                if op is sc.MAX_REPEAT:
                    if count < hi:
                        r = m(sub, 0, j, lambda j2: rep(count + 1, j2) if j2 > j or count < lo else None)
                        if r is not None:
                            return r
                    return nxt(j) if count >= lo else None
                else:
                    if count >= lo:
                        r = nxt(j)
                        if r is not None:
                            return r
                    if count < hi:
                        return m(sub, 0, j, lambda j2: rep(count + 1, j2) if j2 > j or count < lo else None)
                    return None
            return rep(0, i)
        if op is sc.AT:
            if av in (sc.AT_END, sc.AT_END_STRING):
                return nxt(i) if i == n else None
            if av in (sc.AT_BEGINNING, sc.AT_BEGINNING_STRING):
                return nxt(i) if i == 0 else None
        if op is sc.ASSERT_NOT or op is sc.ASSERT:
            direction, sub = av
            if direction != 1:
                raise AnalysisError('look-behind not supported')
            r = m(list(sub), 0, i, lambda j: j)
            ok = (r is not None) == (op is sc.ASSERT)
            return nxt(i) if ok else None
        raise AnalysisError('unsupported regex construct %s in backtracking matcher' % (op,))

    r = m(list(tree), 0, pos, lambda j: j)
    return None if r is None else r - pos


# ---------------------------------------------------------------------------
# access to sub-trees (used to take a pattern apart: groups, alternatives)
# ---------------------------------------------------------------------------
def parse_tree(pattern, flags=0):
    try:
        tree = sp.parse(pattern, flags)
    except Exception as e:
        raise AnalysisError('cannot parse regex %r: %s' % (pattern, e))
    return tree, tree.state.flags


def nfa_from_items(items, flags=0, top=MAXC):
    """NFA for a list of (op, av) items of a parsed pattern."""
    nfa = NFA(top)
    b = _Builder(nfa, flags)
    nfa.start, nfa.final = b.build(list(items))
    return nfa


def top_groups(pattern, flags=0):
    """For a pattern that is a sequence of capturing groups: list of item lists, one per group."""
    tree, fl = parse_tree(pattern, flags)
    out = []
    for op, av in tree:
        if op is not sc.SUBPATTERN:
            raise AnalysisError('pattern %r is not a sequence of groups' % (pattern,))
        out.append(list(av[3]))
    return out, fl


def alternatives(items):
    """Alternatives of an item list that consists of one BRANCH (else the list itself as single alternative)."""
    items = list(items)
    if len(items) == 1 and items[0][0] is sc.BRANCH:
        return [list(a) for a in items[0][1][1]]
    if len(items) == 1 and items[0][0] is sc.SUBPATTERN and not items[0][1][0]:
        return alternatives(items[0][1][3])
    return [items]


def is_end_assertion(items):
    items = list(items)
    return len(items) == 1 and items[0][0] is sc.AT and items[0][1] in (sc.AT_END, sc.AT_END_STRING)


# ---------------------------------------------------------------------------
# thorough tier: cross-check of the automata code against the interpreter's own re engine
# (CPython's regex matcher applied to regex *sources*; no parso code runs)
# ---------------------------------------------------------------------------
RECORD = False
REGISTRY = []

_orig_compile_nfa = compile_nfa


def compile_nfa(pattern, flags=0):       # noqa: F811
    nfa = _orig_compile_nfa(pattern, flags)
    if RECORD and len(REGISTRY) < 400:
        REGISTRY.append((pattern, flags, nfa))
    return nfa


def nfa_accepts(nfa, s):
    run = _Run(nfa)
    S = run.initial()
    for ch in s:
        S = run.step(S, ch if isinstance(ch, int) else ord(ch))
        if not S:
            return False
    return run.accepting(S)


def crosscheck_all(seed=0, maxlen=3, samples=300):
    """For every recorded pattern: the NFA and re.fullmatch agree on all strings up to ``maxlen`` over the
    pattern's own alphabet partition and on ``samples`` random longer strings."""
    import random
    import re as _re
    rnd = random.Random(seed)
    n_strings = 0
    seen = set()
    for pattern, flags, nfa in REGISTRY:
        key = (pattern, flags)
        if key in seen:
            continue
        seen.add(key)
        try:
            rx_ = _re.compile(pattern, flags)
        except Exception:
            continue
        ats = atoms([nfa])
        if len(ats) > 14:
            ats = sorted(rnd.sample(ats, 14))
        is_bytes = isinstance(pattern, (bytes, bytearray))

        def mk(cs):
            return bytes(cs) if is_bytes else ''.join(map(chr, cs))
        pool = [[]]
        frontier = [[]]
        for L in range(maxlen):
            frontier = [w + [a] for w in frontier for a in ats]
            pool += frontier
            if len(pool) > 4000:
                break
        for _ in range(samples):
            pool.append([rnd.choice(ats) for _ in range(rnd.randint(maxlen + 1, maxlen + 5))])
        for w in pool:
            s = mk(w)
            want = rx_.fullmatch(s) is not None
            # `$` in the NFA is \\Z: skip strings where the difference can show (trailing newline)
            got = nfa_accepts(nfa, w)
            n_strings += 1
            if want != got:
                if (not is_bytes and s.endswith('\n')) or (is_bytes and s.endswith(b'\n')):
                    continue
                raise AnalysisError('automata cross-check failed: pattern %r, string %r: re says %s, NFA says %s'
                                    % (pattern, s, want, got))
    return {'patterns': len(seen), 'strings': n_strings}


# ---------------------------------------------------------------------------
# regex source reconstruction from parsed items (to hand sub-patterns on as text)
# ---------------------------------------------------------------------------
def _esc(c, in_class=False):
    ch = chr(c)
    if ch in ('\n', '\r', '\t', '\f', '\v'):
        return {'\n': '\\n', '\r': '\\r', '\t': '\\t', '\f': '\\f', '\v': '\\v'}[ch]
    if in_class:
        return '\\' + ch if ch in '\\]^-[' else ch
    return '\\' + ch if ch in '\\.^$*+?{}[]|()#' else ch


def _cat_src(av):
    return {'CATEGORY_DIGIT': r'\d', 'CATEGORY_NOT_DIGIT': r'\D', 'CATEGORY_SPACE': r'\s', 'CATEGORY_NOT_SPACE': r'\S',
            'CATEGORY_WORD': r'\w', 'CATEGORY_NOT_WORD': r'\W'}[str(av)]


def items_source(items):
    """Regex source text for a list of (op, av) items (groups become non-capturing)."""
    out = []
    for op, av in items:
        if op is sc.LITERAL:
            out.append(_esc(av))
        elif op is sc.NOT_LITERAL:
            out.append('[^%s]' % _esc(av, True))
        elif op is sc.ANY:
            out.append('.')
        elif op is sc.IN:
            s = ''
            for o2, a2 in av:
                if o2 is sc.NEGATE:
                    s += '^'
                elif o2 is sc.LITERAL:
                    s += _esc(a2, True)
                elif o2 is sc.RANGE:
                    s += '%s-%s' % (_esc(a2[0], True), _esc(a2[1], True))
                elif o2 is sc.CATEGORY:
                    s += _cat_src(a2)
                else:
                    raise AnalysisError('cannot print character-class item %s' % (o2,))
            out.append('[%s]' % s)
        elif op is sc.BRANCH:
            out.append('(?:%s)' % '|'.join(items_source(a) for a in av[1]))
        elif op is sc.SUBPATTERN:
            out.append('(?:%s)' % items_source(av[3]))
        elif op in (sc.MAX_REPEAT, sc.MIN_REPEAT):
            lo, hi, sub = av
            inner = items_source(sub)
            if len(sub) != 1 or sub[0][0] in (sc.BRANCH,) or (sub[0][0] is sc.LITERAL and len(inner) > 2):
                inner = '(?:%s)' % inner
            elif sub[0][0] not in (sc.IN, sc.LITERAL, sc.ANY, sc.SUBPATTERN, sc.NOT_LITERAL):
                inner = '(?:%s)' % inner
            if (lo, hi) == (0, sc.MAXREPEAT):
                q = '*'
            elif (lo, hi) == (1, sc.MAXREPEAT):
                q = '+'
            elif (lo, hi) == (0, 1):
                q = '?'
            elif hi == sc.MAXREPEAT:
                q = '{%d,}' % lo
            else:
                q = '{%d,%d}' % (lo, hi)
            out.append(inner + q + ('?' if op is sc.MIN_REPEAT else ''))
        elif op is sc.AT:
            out.append({sc.AT_END: '$', sc.AT_END_STRING: r'\Z', sc.AT_BEGINNING: '^', sc.AT_BEGINNING_STRING: r'\A'}[av])
        elif op in (sc.ASSERT, sc.ASSERT_NOT):
            direction, sub = av
            out.append('(?%s%s%s)' % ('<' if direction < 0 else '', '=' if op is sc.ASSERT else '!', items_source(sub)))
        else:
            raise AnalysisError('cannot print regex construct %s' % (op,))
    return ''.join(out)


# ---------------------------------------------------------------------------------------------------------------
# exponential ambiguity (EDA): the structural cause of catastrophic backtracking
def _cs_overlap(a, b):
    """a code point both classes contain, or None"""
    if not isinstance(a, CS) or not isinstance(b, CS):
        return (0 if a == b else None)
    i = j = 0
    A, B = a.iv, b.iv
    while i < len(A) and j < len(B):
        lo = max(A[i][0], B[j][0])
        hi = min(A[i][1], B[j][1])
        if lo <= hi:
            return lo
        if A[i][1] < B[j][1]:
            i += 1
        else:
            j += 1
    return None


def exponential_ambiguity(nfa, max_pairs=600000):
    """Decide whether the automaton of a pattern has *exponential degree of ambiguity* (Weber / Seidl): a state q and a
    word w with two different runs from q back to q on w.  A backtracking matcher that fails after w^n has then tried
    2^n runs.  The criterion is checked on the epsilon-free multigraph of the Thompson automaton (one edge per distinct
    epsilon path + character arc, so that `(?:x+)*` keeps its two ways round) through the product of the automaton with
    itself: a strongly connected component that holds a diagonal pair (q, q) and an edge on which the two copies take
    different arcs.  Returns None or a sample of the repeated word (str)."""
    # useful states: reachable from the start and able to reach the final state
    succ = collections.defaultdict(set)
    for s, ts in nfa.eps.items():
        succ[s] |= set(ts)
    for s, lst in nfa.tr.items():
        for _cs, t in lst:
            succ[s].add(t)
    pred = collections.defaultdict(set)
    for s, ts in succ.items():
        for t in ts:
            pred[t].add(s)

    def closure(start, rel):
        seen, todo = {start}, [start]
        while todo:
            x = todo.pop()
            for y in rel.get(x, ()):
                if y not in seen:
                    seen.add(y)
                    todo.append(y)
        return seen
    useful = closure(nfa.start, succ) & closure(nfa.final, pred)
    # epsilon-free multigraph over the "anchor" states (start + targets of character arcs)
    anchors = {nfa.start} | {t for s, lst in nfa.tr.items() for _cs, t in lst if t in useful}
    edges = {}      # anchor -> [(cs, target, edge id)]
    eid = 0
    for a in anchors:
        if a not in useful:
            continue
        out = []
        # every simple epsilon path from a, then one character arc
        stack = [(a, (a,))]
        n_paths = 0
        while stack:
            s, path = stack.pop()
            for cs, t in nfa.tr.get(s, ()):
                if t in useful and isinstance(cs, CS):
                    out.append((cs, t, eid))
                    eid += 1
            for t in nfa.eps.get(s, ()):
                if t in useful and t not in path:
                    n_paths += 1
                    if n_paths > 20000:
                        raise AnalysisError('ambiguity analysis: too many epsilon paths')
                    stack.append((t, path + (t,)))
        edges[a] = out
    # product, explored from the diagonal
    index = {}
    nodes = []
    padj = []       # node -> [(target node, differs, sample code point)]

    def node(p, q):
        k = (p, q) if p <= q else (q, p)
        i = index.get(k)
        if i is None:
            i = len(nodes)
            index[k] = i
            nodes.append(k)
            padj.append(None)
        return i
    todo = [node(a, a) for a in edges]
    while todo:
        i = todo.pop()
        if padj[i] is not None:
            continue
        p, q = nodes[i]
        adj = []
        ep, eq = edges.get(p, ()), edges.get(q, ())
        for cs1, t1, id1 in ep:
            for cs2, t2, id2 in eq:
                if p == q and id2 < id1:
                    continue
                c = _cs_overlap(cs1, cs2)
                if c is None:
                    continue
                j = node(t1, t2)
                adj.append((j, id1 != id2, c))
                if padj[j] is None:
                    todo.append(j)
        padj[i] = adj
        if len(nodes) > max_pairs:
            raise AnalysisError('ambiguity analysis: product automaton too large')
    # strongly connected components (iterative Tarjan)
    n = len(nodes)
    low = [0] * n
    num = [-1] * n
    on = [False] * n
    comp = [-1] * n
    st = []
    counter = [0]
    ncomp = 0
    for root in range(n):
        if num[root] != -1:
            continue
        work = [(root, 0)]
        while work:
            v, pi = work.pop()
            if pi == 0:
                num[v] = low[v] = counter[0]
                counter[0] += 1
                st.append(v)
                on[v] = True
            recurse = False
            adj = padj[v] or []
            while pi < len(adj):
                w = adj[pi][0]
                pi += 1
                if num[w] == -1:
                    work.append((v, pi))
                    work.append((w, 0))
                    recurse = True
                    break
                elif on[w]:
                    low[v] = min(low[v], num[w])
            if recurse:
                continue
            if low[v] == num[v]:
                while True:
                    w = st.pop()
                    on[w] = False
                    comp[w] = ncomp
                    if w == v:
                        break
                ncomp += 1
            if work:
                u = work[-1][0]
                low[u] = min(low[u], low[v])
    diag = collections.defaultdict(list)
    for i, (p, q) in enumerate(nodes):
        if p == q:
            diag[comp[i]].append(i)
    for i in range(n):
        for j, differs, c in padj[i] or ():
            if comp[i] == comp[j] and comp[i] in diag and (differs or nodes[i][0] != nodes[i][1]):
                # a cycle through a diagonal pair that uses this edge: sample word = path d -> i, edge, j -> d
                d = diag[comp[i]][0]

                def path(a, b):
                    prev = {a: None}
                    todo2 = [a]
                    while todo2:
                        x = todo2.pop(0)
                        if x == b:
                            break
                        for y, _df, ch in padj[x] or ():
                            if comp[y] == comp[a] and y not in prev:
                                prev[y] = (x, ch)
                                todo2.append(y)
                    out = []
                    x = b
                    while prev.get(x) is not None:
                        x, ch = prev[x]
                        out.append(ch)
                    return ''.join(chr(ch) for ch in reversed(out))
                return path(d, i) + chr(c) + path(j, d)
    return None
