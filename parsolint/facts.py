"""Branch facts: which atomic conditions are known to hold (or not to hold) when a statement executes.

A rule that asks "is this site guarded by ``initial == '#'``" must get the same answer whether the site sits in
the body of ``if initial == '#':``, in the else branch of ``if initial != '#':``, behind an early
``if initial != '#': continue`` or inside ``if a and initial == '#':``.  ``facts_at`` collects the enclosing
tests with their polarity, splits conjunctions (and negated disjunctions) into atoms and prints each atom in one
canonical way, so rules compare *sets of atoms*, not source text."""
import ast

_FLIP = {ast.Eq: ast.NotEq, ast.NotEq: ast.Eq, ast.In: ast.NotIn, ast.NotIn: ast.In, ast.Is: ast.IsNot, ast.IsNot: ast.Is}
_NEG = (ast.NotEq, ast.NotIn, ast.IsNot)
_TERMINATORS = (ast.Return, ast.Raise, ast.Continue, ast.Break)


def _text(n):
    return ' '.join(ast.unparse(n).split())


_MODULE_LITERALS = {}


def _module_literal(n):
    """A plain name that the enclosing module binds exactly once, at top level, to a string / tuple-of-strings literal
    stands for that literal: `initial in _LINE_BREAKS` is the same atom as `initial in '\\r\\n'`."""
    if not isinstance(n, ast.Name):
        return n
    root = n
    fn_locals = False
    while getattr(root, '_parent', None) is not None:
        root = root._parent
        if isinstance(root, (ast.FunctionDef, ast.AsyncFunctionDef, ast.Lambda)):
            # a local of the same name shadows the module constant
            for x in ast.walk(root):
                if isinstance(x, ast.Name) and x.id == n.id and isinstance(x.ctx, (ast.Store, ast.Del)):
                    fn_locals = True
                if isinstance(x, ast.arg) and x.arg == n.id:
                    fn_locals = True
    if fn_locals or not isinstance(root, ast.Module):
        return n
    table = _MODULE_LITERALS.get(id(root))
    if table is None:
        table = {}
        counts = {}
        for st in root.body:
            for t in (st.targets if isinstance(st, ast.Assign) else [st.target] if isinstance(st, (ast.AnnAssign, ast.AugAssign)) else []):
                if isinstance(t, ast.Name):
                    counts[t.id] = counts.get(t.id, 0) + 1
                    v = getattr(st, 'value', None)
                    ok = isinstance(v, ast.Constant) and isinstance(v.value, str)
                    ok = ok or (isinstance(v, (ast.Tuple, ast.List, ast.Set)) and v.elts and all(
                        isinstance(e, ast.Constant) and isinstance(e.value, str) for e in v.elts))
                    if ok and isinstance(st, (ast.Assign, ast.AnnAssign)):
                        table[t.id] = v
        for name, c in counts.items():
            if c != 1:
                table.pop(name, None)
        _MODULE_LITERALS[id(root)] = (table, root)      # the root is kept alive so that its id is not reused
        table = _MODULE_LITERALS[id(root)]
    return table[0].get(n.id, n)


def _const_key(n):
    n = _module_literal(n)
    if isinstance(n, (ast.Tuple, ast.List, ast.Set)) and all(isinstance(e, ast.Constant) for e in n.elts):
        return '(%s)' % ', '.join(sorted({repr(e.value) for e in n.elts}))
    return _text(n)


def atoms(test, positive=True):
    """-> set of (text, polarity).  Conjunctions that hold / disjunctions that do not hold are split."""
    if isinstance(test, ast.UnaryOp) and isinstance(test.op, ast.Not):
        return atoms(test.operand, not positive)
    if isinstance(test, ast.BoolOp):
        if isinstance(test.op, ast.And) == positive:
            out = set()
            for v in test.values:
                out |= atoms(v, positive)
            return out
        # a disjunction that holds / a conjunction that fails: one compound atom
        parts = sorted('%s%s' % ('' if p else '!', t) for v in test.values for t, p in _one(v, positive))
        return {(' | '.join(parts), True)}
    return set(_one(test, positive))


def _one(test, positive):
    """canonical atom(s) for a non-splittable test"""
    if isinstance(test, ast.UnaryOp) and isinstance(test.op, ast.Not):
        return _one(test.operand, not positive)
    if isinstance(test, ast.BoolOp):
        inner = atoms(test, positive)
        if len(inner) == 1:
            return list(inner)
        return [(' & '.join(sorted('%s%s' % ('' if p else '!', t) for t, p in inner)), True)]
    if isinstance(test, ast.Compare) and len(test.ops) == 1:
        op, left, right = test.ops[0], test.left, test.comparators[0]
        if type(op) in _NEG:
            op, positive = _FLIP[type(op)](), not positive
        if isinstance(op, ast.Eq) and isinstance(left, ast.Constant) and not isinstance(right, ast.Constant):
            left, right = right, left
        sym = {ast.Eq: '==', ast.In: 'in', ast.Is: 'is', ast.Lt: '<', ast.LtE: '<=', ast.Gt: '>', ast.GtE: '>='}.get(type(op))
        if sym is not None:
            return [('%s %s %s' % (_text(left), sym, _const_key(right)), positive)]
    return [(_text(test), positive)]


def _assigned_names(stmts):
    out = set()
    for st in stmts:
        for n in ast.walk(st):
            if isinstance(n, ast.Name) and isinstance(n.ctx, (ast.Store, ast.Del)):
                out.add(n.id)
    return out


def _names(test):
    return {n.id for n in ast.walk(test) if isinstance(n, ast.Name)}


def facts_at(node, stop=None):
    """Atoms known when ``node`` executes, from enclosing if/elif/else branches, conditional expressions,
    `and`/`or` chains and earlier guards of the form ``if T: <...; return|raise|continue|break>``."""
    out = set()
    child = node
    p = getattr(node, '_parent', None)
    while p is not None and p is not stop:
        if isinstance(p, ast.If):
            if child in p.body:
                out |= atoms(p.test, True)
            elif child in p.orelse:
                out |= atoms(p.test, False)
        elif isinstance(p, ast.IfExp):
            if child is p.body:
                out |= atoms(p.test, True)
            elif child is p.orelse:
                out |= atoms(p.test, False)
        elif isinstance(p, ast.BoolOp):
            for v in p.values:
                if v is child:
                    break
                out |= atoms(v, isinstance(p.op, ast.And))
        elif isinstance(p, ast.While):
            if child in p.body and not _assigned_names(p.body) & _names(p.test):
                out |= atoms(p.test, True)
        # earlier guards in the same block
        for field in ('body', 'orelse', 'finalbody'):
            block = getattr(p, field, None)
            if isinstance(block, list) and child in block:
                i = block.index(child)
                for j in range(i):
                    g = block[j]
                    if isinstance(g, ast.If) and not g.orelse and g.body and isinstance(g.body[-1], _TERMINATORS) \
                            and not _assigned_names(block[j + 1:i]) & _names(g.test):
                        out |= atoms(g.test, False)
        # the else branch of a try runs only after its body completed: guard-and-exit statements of the body count
        if isinstance(p, ast.Try) and child in p.orelse:
            for j, g in enumerate(p.body):
                if isinstance(g, ast.If) and not g.orelse and g.body and isinstance(g.body[-1], _TERMINATORS) \
                        and not _assigned_names(p.body[j + 1:]) & _names(g.test):
                    out |= atoms(g.test, False)
        if isinstance(p, (ast.FunctionDef, ast.AsyncFunctionDef, ast.Lambda)):
            break
        child = p
        p = getattr(p, '_parent', None)
    if p is not None and p is stop and isinstance(p, (ast.FunctionDef, ast.AsyncFunctionDef)):
        block = p.body
        if child in block:
            i = block.index(child)
            for j in range(i):
                g = block[j]
                if isinstance(g, ast.If) and not g.orelse and g.body and isinstance(g.body[-1], _TERMINATORS) \
                        and not _assigned_names(block[j + 1:i]) & _names(g.test):
                    out |= atoms(g.test, False)
    return out


def atom_of(expr_source):
    """Canonical atoms of a condition given as source text (for writing rules): all must be positive."""
    return atoms(ast.parse(expr_source, mode='eval').body, True)


def holds(facts, expr_source):
    return atom_of(expr_source) <= facts


def guards_of(node, stop=None):
    """[(test expression, polarity)] of the enclosing if / else branches and of earlier guard-and-exit statements."""
    out = []
    child = node
    p = getattr(node, '_parent', None)
    while p is not None:
        if isinstance(p, ast.If):
            if child in p.body:
                out.append((p.test, True))
            elif child in p.orelse:
                out.append((p.test, False))
        for field in ('body', 'orelse', 'finalbody'):
            block = getattr(p, field, None)
            if isinstance(block, list) and any(b is child for b in block):
                i = [b is child for b in block].index(True)
                for g in block[:i]:
                    if isinstance(g, ast.If) and not g.orelse and g.body and isinstance(g.body[-1], _TERMINATORS):
                        out.append((g.test, False))
        if p is stop or isinstance(p, (ast.FunctionDef, ast.AsyncFunctionDef, ast.Lambda)):
            break
        child = p
        p = getattr(p, '_parent', None)
    return out
