"""C10 - lexical grammar tables agree with CPython's Lib/tokenize.py / Lib/token.py (reference sources, read not run)."""
from ..rules import rxr


def check(ctx, rep):
    rxr.rx_7_8(ctx, rep)
    rep.note('Not decided: token-stream equality on all valid programs (layout logic: indent columns, bracket depth).')
