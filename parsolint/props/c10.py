"""C10 - lexical grammar tables agree with CPython's Lib/tokenize.py / Lib/token.py (reference sources, read not run)."""
from ..rules import rxr


def check(ctx, rep):
    rxr.rx_7_8(ctx, rep)
    from ..rules import rxr as _rx13
    _rx13.rx_13(ctx, rep)       # the lexical patterns are blind to the spelling of line breaks
    from ..rules import eff as _eff1
    _eff1.eff_1(ctx, rep, only=[('parso/python/tokenize.py', 'tokenize'), ('parso/python/tokenize.py', 'tokenize_lines')], minimum=5)     # nothing outlives a call: the result is a function of the arguments alone
    from ..rules import tok as _tok15
    _tok15.tok_15(ctx, rep)     # the dispatch types as NUMBER exactly what the Number pattern matches
    rep.note('Not decided: token-stream equality on all valid programs (layout logic: indent columns, bracket depth).')
