"""C07 - strict and recovering parsers agree: mode non-interference up to the first error."""
from ..rules import par


def check(ctx, rep):
    par.par_6(ctx, rep)
    # the token filter is inert before the first error only if its state starts empty in every parse: no parser state
    # is shared between parses (class-level containers, mutable defaults)
    from ..rules import eff as _eff
    _eff.eff_1(ctx, rep, only=[('parso/grammar.py', 'Grammar.parse')], minimum=20)
    from ..rules import par as _par14
    _par14.par_14(ctx, rep)     # INDENT / DEDENT bookkeeping sees every token once (not the tokens recovery re-feeds)
    from ..rules import tok as _tok5
    _tok5.tok_5(ctx, rep)       # the zero-width tokens of the epilogue stand at the end of the input: that is where a strict parse reports them
    par.par_6c(ctx, rep)        # the mode flag reaches the parser only: same tokens and text in both modes
    rep.note('Not decided: equality of the two result trees as values.')
