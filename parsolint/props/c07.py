"""C07 - strict and recovering parsers agree: mode non-interference up to the first error."""
from ..rules import par


def check(ctx, rep):
    par.par_6(ctx, rep)
    rep.note('Not decided: equality of the two result trees as values.')
