"""C03 - positions: one definition of "line break" wherever positions are computed."""
from ..rules import rxr, treer


def check(ctx, rep):
    rxr.rx_3_4(ctx, rep)
    rxr.rx_11(ctx, rep)
    rxr.tree_8(ctx, rep)
    rxr.rx_10(ctx, rep)
    # memoised position data must not survive an in-place incremental re-parse (positions are shifted by
    # plain attribute writes there)
    treer.tree_6(ctx, rep)
    from ..rules import eff as _eff6
    _eff6.eff_6(ctx, rep)        # no memo hands one mutable result to several callers
    from ..rules import tok as _tok
    _tok.tok_11(ctx, rep)        # f-string text: start position recorded where the first piece is matched
    rxr.rx_12(ctx, rep)          # the BOM is zero-width only as the first character
    from ..rules import dim as _pos1
    _pos1.pos_1(ctx, rep)       # an offset is never recovered by searching for the text
    from ..rules import tok as _tok14
    _tok14.tok_14(ctx, rep)     # the first-line block (BOM, start column) runs for the first line on every path
    rep.note('Not decided: the positions themselves (numeric).')
