"""Registry: property id -> check function(ctx, rep)."""
import importlib

REGISTRY = {}
for _i in range(1, 21):
    _id = 'C%02d' % _i
    try:
        _m = importlib.import_module('.%s' % _id.lower(), __name__)
    except ModuleNotFoundError as e:
        if e.name and e.name.endswith(_id.lower()):
            continue
        raise
    REGISTRY[_id] = _m.check
