"""C01 - lossless round-trip: text-conservation discipline of tokenizer, parser and tree."""
from ..rules import rxr, tok, par, gr, treer


def check(ctx, rep):
    from ..report import Report
    pf = rxr.rx_2(ctx, Report('scratch'))   # only the accumulator roles are needed here (purity is C09)
    tok.tok_1_2(ctx, rep, pf.acc)
    tok.tok_3(ctx, rep, pf.acc)
    tok.tok_8(ctx, rep)
    tok.tok_10(ctx, rep)
    tok.tok_5(ctx, rep)
    par.par_1(ctx, rep)
    par.pop_shape(ctx, rep)
    par.par_7(ctx, rep)
    gr.gr_6(ctx, rep)
    gr.par_8(ctx, rep)
    treer.tree_0(ctx, rep)
    rxr.rx_3_4(ctx, rep)
    rxr.rx_9(ctx, rep)
    rxr.rx_5_6(ctx, rep)      # bytes input: the codec the detector picks does not swallow the BOM
    from ..rules import eff as _eff6
    _eff6.eff_6(ctx, rep)        # no memo hands one mutable result to several callers
    from ..rules import tok as _tok12
    _tok12.tok_12(ctx, rep)     # what a scan step emits and where the scan continues agree
    from ..rules import rxr as _rx13
    _rx13.rx_13(ctx, rep)       # the lexical patterns are blind to the spelling of line breaks
    from ..rules import rxr as _src1
    _src1.src_1(ctx, rep)       # the source text is only decoded and cut into lines on its way to the tokenizer
    rep.note('Not decided: that the regexes and the `pos` arithmetic slice each line correctly (value reasoning), '
             'i.e. the full equality get_code() == input.')
