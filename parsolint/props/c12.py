"""C12 - no false syntax errors: three structural necessary conditions."""
from ..rules import tc, gr, rxr


def check(ctx, rep):
    tc.norm_8(ctx, rep)
    tc.tc_sites(ctx, rep, 'parso/python/errors.py', 'TC-1')
    gr.gr_11(ctx, rep)
    gr.gr_5(ctx, rep)
    gr.gr_5_gate(ctx, rep)
    # a literal or operator CPython reads as one token must be one token here, or a valid program gets an error node
    rxr.rx_7_8(ctx, rep)
    rep.note('Not decided: the logic and version guards of the semantic rules in errors.py; CPython\'s verdict is not '
             'available to a static argument.')
