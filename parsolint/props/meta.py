"""Per-property manifest texts: what is decided, what is trusted, which method decides."""

_TB = ('Trusted: CPython ast / re._parser (syntax only), the parsolint engines (checked by the must-fire / '
       'must-stay-silent variant matrix of the thorough tier), the call-resolution policy of DESIGN.md section 1 '
       '(untyped receivers resolve to every parso class defining the method unless it is a builtin container/str '
       'method), absence of reflection in parso/. ')

META = {
    'C01': {
        'level': 'Decides the text-conservation discipline on every control-flow path: every token construction takes a '
                 'prefix accumulator (TOK-1), zero-width tokens are empty (TOK-2), the tokenizer cannot leave before the '
                 'ENDMARKER epilogue (TOK-5), every exit of the per-line scan loop is at the end of the line or stores the '
                 'rest of the physical line (TOK-10), every token is consumed exactly once by _add_token / error_recovery with its '
                 'fields reaching the leaf attributes they belong to (PAR-1), reductions keep all children (PAR-0), '
                 '_stack_removal deletes exactly what it gathered (PAR-7), convert_node drops exactly the INDENT/DEDENT that '
                 'every grammar puts at suite[1] / suite[-1] (PAR-8, GR-6), get_code is prefix+value joined in order '
                 '(TREE-0), split_lines only merges neighbours (RX-3/4). Does not decide the equality get_code()==input '
                 '(regex / position arithmetic is value reasoning).',
        'note': _TB + 'Anchors are roles (dataflow into the 4th field of PythonToken), not variable names.',
        'technique': 'CFG must-pass-through / consume-exactly-once path rules with truthiness facts + grammar shape check',
    },
    'C02': {
        'level': 'Decides structural necessary conditions of totality: grammar-table lookups are KeyError-guarded (PAR-2), '
                 'every token is consumed on every path (PAR-1), the file-level stack entry can never be removed (PAR-9), '
                 'nodes only from accepting states (PAR-3), no local is read unbound on a feasible path in tokenizer / '
                 'parser / tree modules (DA, path-sensitive), the scan loop cannot loop without assigning the position and '
                 'the fallback advances by a positive constant (TOK-6), the f-string closer ranges over every stack entry the '
                 'line cut ranges over (TOK-9), no early exit before the epilogue (TOK-5), the engine spends no interpreter '
                 'frame per reduced rule (PAR-13), no parser / tokenizer state survives an abandoned parse (EFF-1 from '
                 'Grammar.parse), the 9 '
                 'grammars cannot make the generator raise (GR-1..3). Does not decide absence of every implicit exception.',
        'note': _TB + 'Five reasoned DA suppressions (named symbol + reason) in rules/dar.py.',
        'technique': 'path-sensitive definite-assignment + CFG path rules + LL(1) grammar analysis',
    },
    'C03': {
        'level': 'Decides the clause "one definition of line break wherever positions are computed": split_lines breaks '
                 'exactly at \\n, \\r\\n, \\r over all strings (regular-language equality against the str.splitlines '
                 'separator set, RX-3/4), no Unicode-whitespace str API is applied to source text outside reasoned sites '
                 '(RX-11), token kinds whose value language contains a line break never map to the single-line end_pos '
                 'leaf classes (TREE-8, language emptiness); no position-derived memo on a tree class survives the in-place '
                 'incremental re-parse (TREE-6, dominators); the start position of f-string text is stored in the text finder on every '
                 'CFG path to a return of fresh text (TOK-11, must-pass-through). Positions themselves are numeric and not decided.',
        'note': _TB + 'Reference set of splitlines separators is computed from the interpreter (CPython behaviour, not parso).',
        'technique': 'regular-language equality / emptiness over re syntax trees + API-ban lint with reasoned sites + must-pass-through on the CFG of the f-string text finder',
    },
    'C04': {
        'level': 'Decides the two clauses that are literally in the statement and visible in code shape: every memo slot of a '
                 'tree class (lazily filled under an is-None test; found by analysis, today Module._used_names) is reset by '
                 'DiffParser.update before anything else happens, update returns the module only after _nodes_tree.close() '
                 '(TREE-6, dominators), and every children-list write in diff.py sets the parents of what it places (TREE-1); '
                 'the position code the diff parser\'s line arithmetic is derived from recognises \\n and \\r alike (RX-10); after '
                 'every removal from the list of copied nodes the pending-newline question is asked of the then-last node on '
                 'every path to a return of a non-empty list (DIFF-2, fact-sensitive must-pass-through). '
                 'The equivalence with a fresh parse over edit histories is value/heuristic driven and not decided.',
        'note': _TB,
        'technique': 'dominator analysis on the CFG of DiffParser.update + parent/children pairing rule + fact-sensitive must-pass-through on the CFG of the node copier',
    },
    'C05': {
        'level': 'Decides who creates nodes and from which states: reductions only behind is_final (PAR-3), node / error node / '
                 'error leaf / Param / leaf classes are constructed only in their sanctioned functions (PAR-4, resolved '
                 'constructor calls incl. node_map / leaf_map tables), parser state is forced only by the two enumerated '
                 'recovery shortcuts under their guards (PAR-5), node_map keys are rule names and the classes report that '
                 'type (GR-7), convert_node builds the node of the nonterminal it was called with (PAR-12) and Keyword/Name '
                 'leaves are decided on the token text itself (PAR-11), INDENT/DEDENT only in suite at [1]/[-1] (GR-6, PAR-8). '
                 'Does not decide that the children of a '
                 'node are a sentence of its rule.',
        'note': _TB,
        'technique': 'who-may-construct / dominance rules on resolved call sites + grammar-table agreement',
    },
    'C06': {
        'level': 'Decides, for all sentences, the grammar-side condition under which a greedy table-driven LL(1) engine loses '
                 'no sentence: each of the 9 grammar files is checked by an independent EBNF reader for left recursion, '
                 'nullable rules, FIRST/FIRST conflicts in every DFA state and FIRST/FOLLOW conflicts at every accepting '
                 'state with out-arcs (which parso\'s own generator does not test); every quoted terminal is one NAME/OP token '
                 'of that version\'s tokenizer under ordered-choice regex semantics (GR-5); every read of the reserved-word '
                 'table is keyed by the token\'s own unmodified text at the read site and at every call site (PAR-11); the '
                 'engine is iterative - every call cycle through _add_token passes through error_recovery (PAR-13). Does '
                 'not decide that the returned tree equals the derivation.',
        'note': _TB + 'Assumes generator.py builds the tables the text describes (structural part: C08).',
        'technique': 'LL(1) FIRST/FOLLOW conflict analysis of the grammar files + ordered-choice regex matching of terminals',
    },
    'C07': {
        'level': 'Decides mode non-interference up to the first error: the recovery flag is read at exactly three sites, '
                 'recovery-only state is touched only behind the flag, the strict exit is guarded by it, the token filter is '
                 'installed only in recovery mode and forwards every token while no indent was discarded, strict mode builds '
                 'its error leaf from the offending token (PAR-6); the filter state starts empty in every parse - no parser '
                 'state is shared between parses (EFF-1 from Grammar.parse). Equality of the result trees as values is not decided.',
        'note': _TB,
        'technique': 'read-site inventory + edge-dominance on CFGs of the parser',
    },
    'C08': {
        'level': 'Decides the rejection paths of the generator: a table store is reachable only through a failed membership '
                 'test whose success raises (GEN-1), the left-recursion sentinel dominates recursion and finding it raises '
                 '(GEN-2), DFA state equality compares finality, arc count and arc identity label by label before any positive '
                 'verdict and states are merged only when equal (GEN-3); no recursive function hands out a memo entry it '
                 'stored before its recursive calls returned (GEN-6); the EBNF -> NFA step: on every path of the four combinators of '
                 'grammar_parser.py (abstractly interpreted: opaque look-ahead with recorded constraints, sub-fragments in five '
                 'representative wirings, at most three operands) the automaton built accepts exactly the language of the '
                 'EBNF phrase the path consumed (GEN-5, regular-language equivalence). The LL(1) verdict on the shipped grammar '
                 'files is part of C06 / C02, not of this property (a grammar file cannot break the generator). Faithfulness of the NFA -> DFA subset construction and of the '
                 'first-set / plan tables as an input/output relation is not decided.',
        'note': _TB,
        'technique': 'abstract interpretation of the NFA combinators + regular-language equivalence; dominator / must-raise '
                     'path rules on generator.py; effect analysis from generate_grammar',
    },
    'C09': {
        'level': 'Decides prefix purity and splitter totality as a regular-language statement over all strings: only the '
                 'tokenizer\'s own lexical classes flow into a token prefix (RX-2, interprocedural dataflow into the prefix '
                 'field), and the language they generate is included in the language prefix.split_prefix tiles, every '
                 'recognised part having a type (RX-1, automata inclusion with shortest witness); whitespace classes agree '
                 '(RX-9); INDENT/DEDENT pushes and pops are paired with their tokens (TOK-4); exactly one ENDMARKER, last '
                 '(TOK-5); scan-loop progress (TOK-6, TOK-9), the rest of a line is kept when the scan is left (TOK-10); no '
                 'tokenizer state outlives a call - no shared write, no mutated default reachable from tokenize / '
                 'tokenize_lines (EFF-1). True positions are not decided.',
        'note': _TB + 'Regexes are recovered by constant-folding tokenize.py / prefix.py, never by importing them.',
        'technique': 'dataflow into token fields + regular-language inclusion (epsilon-NFA product, shortest witness)',
    },
    'C10': {
        'level': 'Decides agreement of the lexical tables with the reference sources Lib/tokenize.py / Lib/token.py of every '
                 'interpreter 3.6-3.13 in the sandbox (read with ast, never run): Number / Whitespace / Comment are '
                 'language-equivalent (RX-7), every reference operator is one maximal token of parso\'s tokenizer for that '
                 'version, parso-only operators are a reasoned list, string prefixes coincide (RX-8). Token-stream equality on '
                 'all valid programs (layout logic) is not decided.',
        'note': _TB + 'Reference: pyenv interpreter sources; 3.14 has no reference in the sandbox.',
        'technique': 'regular-language equivalence against constant-folded CPython reference tables',
    },
    'C11': {
        'level': 'Decides parent/child ownership and identity-based navigation: every statement that places elements into a '
                 'children list sets their parent in the same function or obtains them from _create_params(owner, ...) '
                 '(TREE-1), no tree class has an __eq__ that can hold between distinct nodes, sibling navigation uses `is`, '
                 'leaf stepping moves one sibling and descends (TREE-2); the position lookup returns None, the child its search '
                 'located or that child\'s own lookup result (TREE-10); node types are tested for membership in collections only, '
                 'the *args tuple of search_ancestor is never rebound (TREE-11). That the binary search selects the right child '
                 '(comparisons over positions) is not decided.',
        'note': _TB,
        'technique': 'pairing rule over all children-list writes + equality-definition audit over the class hierarchy',
    },
    'C12': {
        'level': 'Decides three structural necessary conditions: value-keyed rule dispatch is leaf-category safe (NORM-8: with '
                 'the token-value model built from the folded tokenizer regexes and the grammars, a registered spelling can '
                 'only reach a rule through keyword/operator leaves or the rule narrows first), text comparisons in errors.py '
                 'are category safe (TC-1), no grammar version is a local outlier between its neighbours (GR-11, product of '
                 'rule DFAs with witness), every terminal is producible and the := gate matches the grammars (GR-5), every '
                 'number literal / operator CPython reads as one token is one token here (RX-7/8). The logic of the semantic '
                 'rules is not decided.',
        'note': _TB + 'Assumes CPython\'s syntax is convex over 3.6-3.14 at production level (stated in evidence).',
        'technique': 'leaf-category (type-confusion) analysis over regex value languages + cross-version grammar inclusion',
    },
    'C13': {
        'level': 'Decides: no unbound local (DA) and no mis-bound call / issue argument kinds (SIG, SIG-K) on any path of the '
                 'error finder; every error leaf reaches an issue-adding call and error nodes are reported (NORM-1/2); every '
                 'registered rule pairs 901/"SyntaxError: " or 903/"IndentationError: " (NORM-3); first issue per line, one '
                 'Issue per kept entry (NORM-4); no tree attribute store and no set iteration reachable from the walk '
                 '(EFF-2/4), no write to shared objects reachable from Grammar.iter_errors (EFF-1: a finder, rule instance or '
                 'table cannot carry state from one listing to the next). Implicit exceptions depending on tree invariants and position ranges are not decided.',
        'note': _TB,
        'technique': 'definite assignment + call conformance + CFG path rules + effect analysis on the call graph',
    },
    'C14': {
        'level': 'Decides exhaustiveness of the helper tables w.r.t. every shipped grammar: the container tables equal the '
                 'container node types computed from the grammars (GR-8a), every rule with a binding operator is a definition '
                 'type, delegated or special-cased (GR-8b), text comparisons in the helpers are leaf-category safe (TC-1), no '
                 'unbound local in python/tree.py (DA); helper results memoised on the tree are reset by the incremental '
                 'parser (TREE-6); Name.get_definition never gives up under a node type its sibling _defined_names finds '
                 'targets through (GR-8d); no index into a child list is computed from an amount of text (DIM-1, dimension analysis '
                 'with function summaries). Agreement with CPython\'s ast over all programs is not decided.',
        'note': _TB + 'Three listed known findings (inline := in argument / dictorsetmaker / subscript).',
        'technique': 'grammar reachability with tree-shape conventions vs. helper tables + leaf-category analysis + position/character dimension analysis',
    },
    'C15': {
        'level': 'Decides over all strings: split_lines breaks exactly at \\n, \\r\\n, \\r and its keepends branch is '
                 'conservative (RX-3/4); the text in which parso finds a PEP 263 declaration equals the text in which CPython\'s '
                 'cookie_re / blank-line rule finds one (RX-5, inclusion both ways, reference pattern folded from '
                 'Lib/tokenize.py), an unterminated last line is seen (RX-6), BOM test first; no memoising wrapper hands one '
                 'mutable line list to several callers (EFF-6); file content reaches the decoder as bytes (RX-5d: binary opens only, '
                 'no decode between file_io.read() and python_bytes_to_unicode). Codec behaviour is not decided.',
        'note': _TB,
        'technique': 'regular-language inclusion / equality (bytes alphabet) against the folded CPython cookie pattern',
    },
    'C16': {
        'level': 'Decides keying, freshness direction and sampling order over all histories: every parser_cache access is keyed '
                 '(grammar hash, path) by interprocedural role inference (CACHE-1), the pickle path depends on cache dir, '
                 'version tag, grammar hash and path hash (CACHE-4), identical grammar text implies identical version '
                 'predicates (GR-9), cached nodes are returned only under mtime <= entry time (CACHE-2), the stored time must '
                 'be sampled before the read (CACHE-3; two listed known findings); a parameter that carries a key role is not '
                 'rebound before the store (CACHE-1), the pickle\'s modification time is only changed by writing new content '
                 '(CACHE-5), the compared modification time is read live and file-io objects keep no state (CACHE-6). Equality '
                 'with a fresh parse is not decided.',
        'note': _TB,
        'technique': 'role (provenance) dataflow across cache.py/grammar.py + edge-dominance of freshness tests',
    },
    'C17': {
        'level': 'Decides, for every crash point and file content, that no exception of the file system or of unpickling '
                 'raised inside load_module / try_to_save_module and the clean-up they trigger can escape to Grammar.parse '
                 '(EXC-1: handler coverage + interprocedural propagation with a frozen may-raise table), and that writer and '
                 'reader use the same path expression and the writer puts new content in place - truncating write or a '
                 'freshly written temporary moved onto the path (CACHE-4); no local of cache.py can be read unbound in a '
                 'handler or clean-up path (DA); the unpickled object is type-tested before it is used as an entry (EXC-2); the '
                 'clean-up removes entries by access time only (CACHE-7) and file-io objects keep no state (CACHE-6). "Returns the tree of the current '
                 'content" and the atime-based in-use clause are not decided.',
        'note': _TB + 'May-raise table for ~12 stdlib calls (pickle.load: any Exception, as documented).',
        'technique': 'exception-escape analysis (handler coverage over the builtin exception hierarchy, call-graph propagation)',
    },
    'C18': {
        'level': 'Decides, sound modulo reflection, that from the non-caching parse / tokenize / issue-listing entry points the '
                 'only reachable writes to shared objects (module globals, class-level containers, grammar/table/config '
                 'instances, values obtained from them, mutable defaults) are two reasoned write-once memos (EFF-1), no '
                 'process-global effect call is reachable (EFF-3; one listed known finding: warnings.catch_warnings), no set '
                 'iteration (EFF-4), parser/normalizer/rule instances are per call (EFF-5); the keys of those memos cover every '
                 'parameter the stored value depends on, case by case for `p or default` parameters (MEMO-1). Absence of shared writes implies '
                 'every interleaving yields the sequential result.',
        'note': _TB,
        'technique': 'effect analysis: shared-object inventory + alias tracking + reachability on the resolved call graph',
    },
    'C19': {
        'level': 'Decides: for every tree class the parser can instantiate, the argument list dump() prints binds to the '
                 'MRO-resolved __init__ with the right roles and the name is public in parso.python.tree (TREE-3); every '
                 'assigned instance attribute is a slot or the class has a __dict__, no pickling hooks (TREE-4); parameter '
                 'grouping is idempotent (TREE-7); constructors set parents (TREE-1); RefactoringNormalizer reads no attribute '
                 'only Normalizer.__init__ sets and returns mapped text or prefix+value (TREE-5, TREE-0); no value of an '
                 'unpicklable kind is stored in a slot of a tree class (TREE-9). Equality of the '
                 'round-tripped tree as a value is not decided.',
        'note': _TB,
        'technique': 'signature binding of dump categories against resolved constructors + slot audit',
    },
    'C20': {
        'level': 'Decides: no unbound local, mis-bound call or mis-kinded issue argument in pep8.py (DA, SIG, SIG-K); every pop '
                 'of the indentation stack is guarded by the top node type, mirrored in the suite context manager, or the '
                 'else-half of a push/pop pair, and text-based bracket recognition is leaf-category safe (NORM-6); the prefix '
                 'splitter cannot fail on any tokenizer prefix (RX-1/2: the walk splits every prefix); issues are appended only '
                 'under the (code,start) de-duplication (NORM-5); no tree writes / set iteration (EFF-2/4), no shared write '
                 'reachable from _get_normalizer_issues (EFF-1), tree memos reset by the incremental parser (TREE-6); 292 treats \\n and '
                 '\\r alike. Positions and equality across fresh/incremental/cached trees are not decided.',
        'note': _TB,
        'technique': 'definite assignment + call conformance + stack-discipline typestate rule + regular-language inclusion',
    },
}


# sentences appended to the level texts by later rounds (kept apart so that the original texts stay readable)
ADDENDA = {'C01': ' Round 9: a scan step that emits a text shorter than the match continues at the end of exactly that text (TOK-12, abstract state on the CFG of the scan loop). Round 10: every compiled lexical pattern is blind to the spelling of line breaks (RX-13, regular-language inclusion of the LF->CRLF / CR image). Round 11: TOK-12 also covers text that goes into a pending prefix and a continuation at the end of the line. Round 14: the source text is only decoded and cut into lines on its way to the tokenizer (SRC-1).', 'C09': ' Round 9: TOK-12 (emitted text vs. scan position), RX-12 (the BOM is recognised only with startswith / whole-value comparison), NORM-13 (split_prefix gets a start computed from that leaf). Round 10: RX-13; POS-1 (no offset recovered by searching for the text). Round 12: TOK-13. Round 13: RX-14 (no exponentially ambiguous pattern), TOK-14 (first-line block), TOK-5 (epilogue positions).', 'C03': ' Round 9: RX-12 (the BOM constant is never searched for inside text). Round 10: POS-1 (no offset recovered by searching for the text). Round 13: the first-line block of the tokenizer (BOM, start column) runs for the first line on every path (TOK-14).', 'C11': ' Round 9: leaf classes with the single-line end_pos (the key of the position lookup) receive no token kind whose text can contain a line break (TREE-8). Round 14: no pickling / copying hook in the tree hierarchy rebuilds parent links (TREE-4).', 'C13': ' Round 9: every exception class a codec probe of the string checks may raise is caught (EXC-3, exception-escape analysis); NORM-13. Round 11: IDX-1. Round 13: LOOP-1 (a value computed for one element of a loop is not used for the next).', 'C16': ' Round 9: a temporary file that is renamed onto the pickle is private to the entry (CACHE-4). Round 11: entries are pickled verbatim (CACHE-9); the pickle write does not depend on the cache file that is already there (CACHE-10). Round 13: the mtime handed to the cache is sampled on every way to a save of a file with a path (CACHE-3). Round 14: an outdated in-memory entry ends the lookup (CACHE-2); the in-memory entry is stored on every way through the save (CACHE-10); cache.py keeps no module-level state besides parser_cache (CACHE-12).', 'C17': ' Round 9: no file is memory-mapped (CACHE-8: truncation by a concurrent writer would be SIGBUS); CACHE-4 private temporary. Round 11: CACHE-9, CACHE-10. Round 14: CACHE-12 (nothing is remembered about the file system), CACHE-10 (store).', 'C19': ' Round 9: every return of the default Normalizer.visit is the leaf rendering or the join of all children (TREE-5). Round 11: an activation-local memo stores under a key only what the key determines (LMEMO-1). Round 13: TREE-1 is limited to the tree modules (constructors).', 'C20': ' Round 9: NORM-13 (a prefix is split with a start position computed from its own leaf). Round 11: no constant index into a freshly filtered list (IDX-1). Round 13: leaf text is taken for an operator, with a sibling then addressed by index arithmetic, only on operator / keyword leaves (TC-1 over pep8.py; F22); every walk up the indentation stack stops at the root (NORM-14; F23); LOOP-1. Round 14: the order of indentation-stack changes and their tokens (TOK-4): the listing is the same for a fresh and an incremental tree.', 'C10': ' Round 10: RX-13 (every compiled pattern of the tokenizer is blind to the spelling of line breaks). Round 12: no tokenizer state outlives a call (EFF-1 from tokenize / tokenize_lines). Round 14: the dispatch of tokenize_lines types as NUMBER exactly what the Number pattern matches (TOK-15, boolean formula over regular languages of the token text).', 'C02': ' Round 10: the INDENT / DEDENT counting of the recovering parser is not reachable from error_recovery, which re-feeds tokens (PAR-14). Round 12: the indentation of a logical line is decided once (TOK-13, fact-sensitive path search). Round 13: no lexical pattern is exponentially ambiguous (RX-14, Weber-Seidl criterion on the product automaton): matching terminates in practice. Round 14: the parser modules call no recursive tree method other than get_last_leaf (PAR-15).', 'C07': ' Round 10: PAR-14. Round 13: the zero-width tokens of the tokenizer epilogue stand at the position of the ENDMARKER (TOK-5). Round 14: the error_recovery argument of Grammar.parse reaches the parser constructor only (PAR-6c).', 'C04': ' Round 9/10: chains of step-into-the-last-child tests are closed under the grammar (WRAP-1: decorated -> async_funcdef -> funcdef). Round 13: versions that share a grammar text (one diff-cache slot) tokenize alike (GR-9). Round 14: the cache entry the next incremental parse starts from is stored on every way through try_to_save_module (CACHE-10).', 'C06': ' Round 10: no parser state outlives a parse (EFF-1 from Grammar.parse): a valid sentence parses the same after any history. Round 13: node classes are registered under the rule they are named after (GR-7). Round 14: SRC-1 (the text of a parse is not transformed before it is tokenized).', 'C15': ' Round 10: the position code of the tree modules counts \\\\n and \\\\r alike (RX-10), for "the same line count as the positions in the tree". Round 13: compile flags of the declaration pattern are honoured; of two declarations the first wins (lazy optional first line, RX-5).', 'C18': " Round 11: classes instantiated only while a memo is built count as shared (EFF-1 inventory); LMEMO-1. Round 13: in-place operators on aliases of shared objects are writes; helpers of a memo function may only write the memo's own container (EFF-1).", 'C14': " Round 12: GR-8a by role - every scope search descends through a table that contains every node type from which its targets are reachable. Round 13: LOOP-1 (a value computed for one element of a loop is not used for the next) over the tree modules. Round 14: a loop over a node's children that breaks at the first child of another type loses no later child of the wanted type (BRK-1, grammar shape model).", 'C08': ' Round 12: the tables are a function of the arguments alone (EFF-1 from generate_grammar). Round 13: the LL(1) analysis of the shipped grammar files moved to C06 / C02 (a grammar file cannot break the generator).', 'C05': ' Round 13: a tree served from the cache was built by the grammar that is asked (CACHE-1, first-level key).'}

TECH_ADDENDA = {'C01': ' + abstract (token text, scan position) state on the CFG of the scan loop', 'C09': ' + abstract (token text, scan position) state on the CFG of the scan loop + BOM API-ban lint + regex ambiguity analysis', 'C13': ' + exception-escape analysis of the codec probes', 'C15': ' + binary-read / who-may-decode rule on the source acquisition path + ordered-choice preference of the optional first line', 'C17': ' + definite assignment over cache.py + memory-mapping ban', 'C11': ' + language emptiness (line breaks) of token kinds mapped to single-line leaf classes', 'C10': ' + homomorphic-image inclusion (line-break spellings) on the compiled patterns', 'C04': ' + grammar-derived wrapper-closure of unwrap chains', 'C02': ' + call-graph reachability (token re-feed vs. indent bookkeeping) + regex ambiguity analysis (product automaton, SCC)', 'C06': ' + effect analysis from Grammar.parse', 'C14': ' + loop-carried value dataflow on the CFG', 'C20': ' + leaf-category rule over pep8.py + None-guarded parent-chain walks', 'C16': ' + must-pass-through (mtime sample before every save)', 'C03': ' + must-pass-through (first-line block)', 'C07': ' + epilogue token positions'}
