"""Per-property manifest texts (what is decided, what is trusted)."""

META = {
    'C06': {
        'level': 'Decides, for all sentences, the grammar-side necessary and sufficient condition under which a '
                 'greedy table-driven LL(1) engine loses no sentence: each of the 9 grammar files is checked by an '
                 'independent EBNF reader for left recursion, nullable rules, FIRST/FIRST conflicts in every DFA '
                 'state and FIRST/FOLLOW conflicts at every accepting state with out-arcs (the condition parso\'s own '
                 'generator does not test), and every quoted terminal is shown to be one NAME/OP token of the '
                 'version\'s tokenizer (ordered-choice regex semantics). Does not decide that the returned tree '
                 'equals the derivation.',
        'note': 'Trusted: the own grammar reader/DFA construction (cross-checked against the generator by C08 rules), '
                're._parser syntax trees, the constant folder that recovers the tokenizer regexes. Assumes generator.py '
                'builds the tables the text describes.',
        'technique': 'LL(1) FIRST/FOLLOW conflict analysis of the grammar files + regex ordered-choice matching of terminals',
    },
}
