"""C13 - error listing: total, coherent, pure, deterministic (structural clauses)."""
from ..rules import dar, normr, eff, tc

MODS = ['parso/normalizer.py', 'parso/python/errors.py', 'parso/python/prefix.py']


def check(ctx, rep):
    from ..rules import shape as _shape
    _shape.gr_10b(ctx, rep, ['parso/python/errors.py'])
    from ..rules import shape
    _n = shape.gr_10(ctx, rep, ['parso/python/errors.py'])
    rep.minimum('GR-10', 4)
    dar.da_rule(ctx, rep, MODS)
    dar.sig_rule(ctx, rep, MODS)
    dar.issue_kind_rule(ctx, rep, ['parso/normalizer.py', 'parso/python/errors.py'])
    from ..rules import rxr
    rxr.rx_10(ctx, rep, ['parso/python/errors.py', 'parso/python/prefix.py', 'parso/normalizer.py'])
    normr.norm_1_2(ctx, rep)
    normr.norm_3(ctx, rep)
    normr.norm_4_5(ctx, rep)
    _ef = ctx.prog.cls('parso/python/errors.py', 'ErrorFinder')
    roots = [_ef.lookup(m) for m in ('visit', 'walk', 'initialize', 'finalize')]     # own or inherited
    if any(r is None for r in roots):
        from ..model import AnalysisError
        raise AnalysisError('anchor vanished: visit / walk / initialize / finalize of ErrorFinder')
    eff.eff_2(ctx, rep, roots, 'iter_errors')
    eff.eff_4(ctx, rep, roots)
    # no state outlives a call: no shared write reachable from the entry points of this property
    from ..rules import eff as _eff
    _eff.eff_1(ctx, rep, only=[('parso/grammar.py', 'Grammar.iter_errors'), ('parso/grammar.py', 'Grammar._get_normalizer_issues')], minimum=20)
    from ..rules import normr as _n11
    _n11.norm_11(ctx, rep)      # prefix part columns: first-line state does not leak into later lines
    from ..rules import cache as _exc3
    _exc3.exc_3(ctx, rep)       # the codec probes of the string checks cannot raise out of the listing
    from ..rules import normr as _n13
    _n13.norm_13(ctx, rep)      # a prefix is split with a start position computed from its own leaf
    from ..rules import dar as _idx1
    _idx1.idx_1(ctx, rep, ['parso/python/errors.py', 'parso/normalizer.py'])     # no constant index into a freshly filtered list
    from ..rules import dar as _loop1
    _loop1.loop_1(ctx, rep, ['parso/python/errors.py', 'parso/normalizer.py', 'parso/python/prefix.py'])      # a value computed for one element of a loop is not used for the next one
    rep.note('Not decided: absence of every implicit exception (None dereferences that depend on tree invariants), '
             'position ranges. Dependency: RX-1 (C09) - two rules call _split_prefix.')
