"""C17 - a torn or corrupt cache file is a miss: exception escape + writer/reader agreement."""
from ..rules import cache, dar


def check(ctx, rep):
    cache.exc_1(ctx, rep)
    cache.exc_2(ctx, rep)
    roles = cache.Roles(ctx)
    cache.cache_4(ctx, rep, roles)
    # an unbound local in a handler or clean-up path raises UnboundLocalError, which no OSError handler absorbs
    dar.da_rule(ctx, rep, ['parso/cache.py'])
    cache.cache_6_7(ctx, rep)
    cache.cache_8(ctx, rep)      # no memory-mapped cache file: truncation by a concurrent writer would be SIGBUS, not an exception
    cache.cache_9_10(ctx, rep)   # entries are pickled verbatim; the save does not depend on the cache file that is already there
    cache.cache_12(ctx, rep)     # no module-level state besides parser_cache (nothing remembered about the file system)
    rep.note('Not decided: "returns the tree of the current content"; the in-use clause of clean-up (atime based).')
