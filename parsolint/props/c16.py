"""C16 - parse cache transparency: keying, freshness direction, sampling order."""
from ..rules import cache, gr


def check(ctx, rep):
    roles = cache.cache_1(ctx, rep)
    cache.cache_4(ctx, rep, roles)
    gr.gr_9(ctx, rep)
    cache.cache_2_3(ctx, rep, roles)
    cache.cache_5(ctx, rep)
    cache.cache_6_7(ctx, rep)
    cache.cache_9_10(ctx, rep)   # entries are pickled verbatim; the save does not depend on the cache file that is already there
    cache.cache_12(ctx, rep)     # no module-level state besides parser_cache (nothing remembered about the file system)
    rep.note('Not decided: equality of the returned tree with a fresh parse.')
