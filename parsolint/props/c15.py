"""C15 - source decoding and line splitting (language-level, all strings)."""
from ..rules import rxr


def check(ctx, rep):
    rxr.rx_3_4(ctx, rep)
    rxr.rx_5_6(ctx, rep)
    rxr.rx_5c(ctx, rep)
    rep.note('Not decided: codec behaviour.')
