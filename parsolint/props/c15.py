"""C15 - source decoding and line splitting (language-level, all strings)."""
from ..rules import rxr


def check(ctx, rep):
    rxr.rx_3_4(ctx, rep)
    rxr.rx_5_6(ctx, rep)
    rxr.rx_5c(ctx, rep)
    rxr.rx_5d(ctx, rep)
    from ..rules import eff as _eff6
    _eff6.eff_6(ctx, rep)        # no memo hands one mutable result to several callers
    # 'the same line count as the positions in the tree': the position code of the tree counts \n and \r alike
    rxr.rx_10(ctx, rep, ['parso/tree.py', 'parso/python/tree.py', 'parso/utils.py'])
    rep.note('Not decided: codec behaviour.')
