"""C06 - the parser accepts every sentence of the grammar (grammar side: strong LL(1) for the
greedy engine, terminal producibility)."""
from ..rules import gr, rxr, par


def check(ctx, rep):
    gr.gr_1_4(ctx, rep, with_follow=True)
    gr.gr_5(ctx, rep)
    rxr.rx_7_8(ctx, rep)      # named terminals: every NUMBER / operator spelling CPython accepts is one token
    par.par_11(ctx, rep)      # the reserved-word lookup is keyed by the token text itself
    gr.gr_7(ctx, rep)         # "same rule names": a node is named after the nonterminal it was reduced from
    par.par_13(ctx, rep)      # the engine is iterative: no interpreter frame per reduced rule
    from ..rules import eff as _eff
    _eff.eff_1(ctx, rep, only=[('parso/grammar.py', 'Grammar.parse')], minimum=20)     # no parser state outlives a parse: a valid sentence parses the same after any history
    rep.assume('parso/pgen2/generator.py builds the tables the grammar text describes (see C08 for its structural part)')
    from ..rules import rxr as _src1
    _src1.src_1(ctx, rep)       # the source text is only decoded and cut into lines on its way to the tokenizer
    from ..rules import tok as _tok15
    _tok15.tok_15(ctx, rep)     # the dispatch types as NUMBER exactly what the Number pattern matches
    rep.note('Not decided: equality of the returned tree with the derivation (run-time behaviour of the engine).')
