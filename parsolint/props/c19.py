"""C19 - serialisation and refactoring: dump/constructor agreement, slots, idempotent grouping, refactor rendering."""
from ..rules import treer


def check(ctx, rep):
    treer.tree_3(ctx, rep)
    treer.tree_4(ctx, rep)
    treer.tree_7(ctx, rep)
    treer.tree_1(ctx, rep, only=['parso/tree.py', 'parso/python/tree.py'])      # constructors (what unpickling / eval(dump()) run); the diff parser is C04 / C11
    treer.tree_5(ctx, rep)
    treer.tree_0(ctx, rep)
    treer.tree_9(ctx, rep)
    from ..rules import eff as _lm
    _lm.lmemo_1(ctx, rep)        # an activation-local memo stores under a key only what the key determines
    rep.note('Not decided: equality of the round-tripped tree as a value.')
