"""C04 - incremental re-parse: memo invalidation and parent links (both literally in the statement)."""
from ..rules import treer, rxr, tok


def check(ctx, rep):
    treer.tree_6(ctx, rep)
    treer.tree_1(ctx, rep, only=['parso/python/diff.py'])
    # the line arithmetic of the diff parser is derived from end_pos / prefix positions: one notion of line break there
    tok.tok_4(ctx, rep, order=True)      # order of indentation-stack changes and their tokens: the list is shared with the diff parser
    rxr.rx_10(ctx, rep, ['parso/tree.py', 'parso/python/tree.py', 'parso/python/diff.py'])
    from ..rules import diffr
    diffr.diff_2(ctx, rep)   # the pending line end is decided on the node that really is the last one copied
    from ..rules import shape as _shape
    _shape.wrap_1(ctx, rep)      # decorated -> async_funcdef -> funcdef: unwrap chains are closed under the grammar
    from ..rules import gr as _gr9
    _gr9.gr_9(ctx, rep)          # the diff cache is keyed by the grammar hash: versions that share a grammar text must tokenize alike
    from ..rules import cache as _c10
    _c10.cache_9_10(ctx, rep)    # the entry the next incremental parse starts from holds the lines of this parse: stored on every way through try_to_save_module
    rep.note('Not decided: equivalence of the incremental and the fresh tree over edit histories (difflib opcodes, '
             'line arithmetic, copy heuristics are value driven).')
