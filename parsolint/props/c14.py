"""C14 - helper tables are exhaustive w.r.t. every shipped grammar; leaf-category safety of the helpers."""
from ..rules import gr, tc, dar, treer


def check(ctx, rep):
    from ..rules import shape as _shape
    _shape.gr_10b(ctx, rep, ['parso/python/tree.py'])
    from ..rules import shape
    _n = shape.gr_10(ctx, rep, ['parso/python/tree.py'])
    rep.minimum('GR-10', 5)
    gr.gr_8a(ctx, rep)
    gr.gr_8b(ctx, rep)
    gr.gr_8c(ctx, rep)
    gr.gr_8d(ctx, rep)
    tc.tc_sites(ctx, rep, 'parso/python/tree.py', 'TC-1')
    dar.da_rule(ctx, rep, ['parso/python/tree.py'])
    # helper results memoised on the tree (used names, and whatever is added later) are reset by the incremental parser
    treer.tree_6(ctx, rep)
    from ..rules import dim as _dim
    _dim.dim_1(ctx, rep)     # child positions are never computed from amounts of text
    from ..rules import dar as _loop1
    _loop1.loop_1(ctx, rep, ['parso/python/tree.py', 'parso/tree.py'])      # a value computed for one element of a loop is not used for the next one
    from ..rules import shape as _brk1
    _brk1.brk_1(ctx, rep)       # a loop over children that breaks on a type mismatch does not lose a later child of the wanted type
    rep.note('Not decided: the comparison with CPython\'s ast over all programs.')
