"""C11 - tree navigation: parent/child ownership and identity-based navigation."""
from ..rules import treer


def check(ctx, rep):
    treer.tree_1(ctx, rep)
    treer.tree_2(ctx, rep)
    rep.note('Not decided: position lookup (binary search over positions).')
