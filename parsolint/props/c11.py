"""C11 - tree navigation: parent/child ownership and identity-based navigation."""
from ..rules import treer


def check(ctx, rep):
    treer.tree_1(ctx, rep)
    treer.tree_2(ctx, rep)
    treer.tree_10(ctx, rep)
    treer.tree_11(ctx, rep)
    from ..rules import rxr
    rxr.tree_8(ctx, rep)      # end_pos is the key of the position lookup: multi-line token kinds never get the single-line end_pos
    from ..rules import treer as _t4
    _t4.tree_4(ctx, rep)        # no pickling / copying hook rebuilds parent links (copy.copy shares the children list)
    rep.note('Not decided: that the binary search of the position lookup selects the right child (comparisons over positions); '
             'decided only: it returns what it located.')
