"""C09 - tokenizer: prefix purity, splitter totality, INDENT/DEDENT pairing, one ENDMARKER."""
from ..rules import rxr, tok


def check(ctx, rep):
    pf = rxr.rx_2(ctx, rep)
    rxr.rx_1(ctx, rep, pf.classes)
    rxr.rx_9(ctx, rep)
    rxr.rx_11(ctx, rep)
    rxr.rx_12(ctx, rep)          # the BOM is zero-width only as the first character
    rxr.rx_10(ctx, rep, ['parso/python/tokenize.py', 'parso/python/prefix.py', 'parso/tree.py', 'parso/python/tree.py', 'parso/utils.py'])
    tok.tok_1_2(ctx, rep, pf.acc)
    tok.tok_3(ctx, rep, pf.acc)
    tok.tok_8(ctx, rep)
    tok.tok_10(ctx, rep)
    tok.tok_4(ctx, rep)
    tok.tok_5(ctx, rep)
    tok.tok_6(ctx, rep)
    tok.tok_7(ctx, rep)
    tok.tok_9(ctx, rep)
    # no state outlives a call: no shared write reachable from the entry points of this property
    from ..rules import eff as _eff
    _eff.eff_1(ctx, rep, only=[('parso/python/tokenize.py', 'tokenize'), ('parso/python/tokenize.py', 'tokenize_lines'), ('parso/grammar.py', 'PythonGrammar._tokenize_lines'), ('parso/grammar.py', 'PythonGrammar._tokenize')], minimum=5)
    from ..rules import normr as _n11
    _n11.norm_11(ctx, rep)      # prefix part columns: first-line state does not leak into later lines
    from ..rules import normr as _n13
    _n13.norm_13(ctx, rep)      # a prefix is split with a start position computed from its own leaf
    from ..rules import tok as _tok12
    _tok12.tok_12(ctx, rep)     # what a scan step emits and where the scan continues agree
    from ..rules import rxr as _rx13
    _rx13.rx_13(ctx, rep)       # the lexical patterns are blind to the spelling of line breaks
    from ..rules import dim as _pos1
    _pos1.pos_1(ctx, rep)       # an offset is never recovered by searching for the text
    from ..rules import tok as _tok13
    _tok13.tok_13(ctx, rep)     # the indentation of a logical line is decided once
    from ..rules import rxr as _rx14
    _rx14.rx_14(ctx, rep)       # no exponentially ambiguous pattern: the matcher terminates in practice on every text
    from ..rules import tok as _tok14
    _tok14.tok_14(ctx, rep)     # the first-line block (BOM, start column) runs for the first line on every path
    rep.note('Not decided: true positions.')
