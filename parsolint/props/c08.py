"""C08 - the generator rejects conflicts / left recursion; the shipped grammars are LL(1) by an independent analysis."""
from ..rules import gen, gr


def check(ctx, rep):
    gen.gen_1(ctx, rep)
    gen.gen_2(ctx, rep)
    gen.gen_3(ctx, rep)
    gr.gr_1_4(ctx, rep, with_follow=True)
    rep.note('Not decided: faithfulness of the NFA/DFA construction as an input/output relation (translation validation).')
