"""C08 - the generator: EBNF -> NFA fragments, conflict / left-recursion rejection, state equality, no state outliving a call.
(The LL(1) analysis of the shipped grammar *files* belongs to C06 / C02: a grammar file cannot break a property of the generator.)"""
from ..rules import gen, gr, thompson


def check(ctx, rep):
    gen.gen_1(ctx, rep)
    gen.gen_2(ctx, rep)
    gen.gen_3(ctx, rep)
    gen.gen_6(ctx, rep)
    thompson.gen_5(ctx, rep)      # EBNF -> NFA fragments: language of every construction path
    from ..rules import eff as _eff1
    _eff1.eff_1(ctx, rep, only=[('parso/pgen2/generator.py', 'generate_grammar')], minimum=5)     # nothing outlives a call: the result is a function of the arguments alone
    rep.note('Not decided: faithfulness of the NFA -> DFA subset construction and of the first-set / plan tables as an '
             'input/output relation (the EBNF -> NFA step is decided by GEN-5 up to its stated bounds).')
