"""C20 - the PEP 8 checker never fails; issues well-formed and stable (structural clauses)."""
import ast

from ..model import norm, walk_own
from ..rules import dar, normr, eff, rxr

MODS = ['parso/python/pep8.py']


def check(ctx, rep):
    from ..rules import shape
    _n = shape.gr_10(ctx, rep, ['parso/python/pep8.py'])
    dar.da_rule(ctx, rep, MODS)
    dar.sig_rule(ctx, rep, MODS)
    dar.issue_kind_rule(ctx, rep, MODS)
    normr.norm_6(ctx, rep)
    normr.norm_4_5(ctx, rep)
    from ..rules import treer
    treer.tree_6(ctx, rep)       # issue lists must not depend on data cached on the tree across re-parses
    rxr.rx_10(ctx, rep, ['parso/python/pep8.py', 'parso/python/prefix.py', 'parso/normalizer.py'])
    pf = rxr.rx_2(ctx, rep)
    rxr.rx_1(ctx, rep, pf.classes)          # the PEP 8 walk splits every prefix
    roots = [ctx.prog.func('parso/python/pep8.py', 'PEP8Normalizer.visit_leaf'),
             ctx.prog.func('parso/python/pep8.py', 'PEP8Normalizer.visit_node'),
             ctx.prog.func('parso/normalizer.py', 'Normalizer.walk')]
    eff.eff_2(ctx, rep, roots, 'pep8')
    eff.eff_4(ctx, rep, roots)
    # 292: the end-of-file test treats \n and \r alike
    rep.rule('NORM-9', "the 'no newline at end of file' test treats \\n and \\r symmetrically")
    f = ctx.prog.func('parso/python/pep8.py', 'PEP8Normalizer._visit_node')
    found = False
    for n in walk_own(f.node):
        if isinstance(n, ast.If) and any(isinstance(s, ast.Expr) and '292' in norm(s) for s in n.body):
            found = True
            t = norm(n.test, 500)
            if "\\n" not in t and "\\r" not in t:
                rep.skip('NORM-9', 'parso/python/pep8.py', f.qual, 'if %s' % t,
                         'the 292 condition does not test newline characters; whether it is exact is value reasoning (not decided)')
                continue
            ok = ("endswith('\\n')" in t) == ("endswith('\\r')" in t) and ("'\\n'" in t) == ("'\\r'" in t)
            rep.ob('NORM-9', 'parso/python/pep8.py', f.qual, 'if %s' % t, ok, '292 is decided for one newline style only')
    if not found:
        from ..model import AnalysisError
        raise AnalysisError('anchor vanished: 292 test in PEP8Normalizer._visit_node')
    # no state outlives a call: no shared write reachable from the entry points of this property
    from ..rules import eff as _eff
    _eff.eff_1(ctx, rep, only=[('parso/grammar.py', 'Grammar._get_normalizer_issues')], minimum=20)
    normr.norm_12(ctx, rep)      # None-able indentation attributes (tab configuration)
    from ..rules import normr as _n11
    _n11.norm_11(ctx, rep)      # prefix part columns: first-line state does not leak into later lines
    rep.note('Not decided: positions inside the file, non-negative columns, equality of issue lists across fresh / '
             'incremental / cached trees.')
