"""C20 - the PEP 8 checker never fails; issues well-formed and stable (structural clauses)."""
import ast

from ..model import norm, walk_own
from ..rules import dar, normr, eff, rxr

MODS = ['parso/python/pep8.py']


def check(ctx, rep):
    from ..rules import shape
    _n = shape.gr_10(ctx, rep, ['parso/python/pep8.py'])
    dar.da_rule(ctx, rep, MODS)
    dar.sig_rule(ctx, rep, MODS)
    dar.issue_kind_rule(ctx, rep, MODS)
    normr.norm_6(ctx, rep)
    normr.norm_4_5(ctx, rep)
    from ..rules import treer
    treer.tree_6(ctx, rep)       # issue lists must not depend on data cached on the tree across re-parses
    rxr.rx_10(ctx, rep, ['parso/python/pep8.py', 'parso/python/prefix.py', 'parso/normalizer.py'])
    pf = rxr.rx_2(ctx, rep)
    rxr.rx_1(ctx, rep, pf.classes)          # the PEP 8 walk splits every prefix
    roots = [ctx.prog.func('parso/python/pep8.py', 'PEP8Normalizer.visit_leaf'),
             ctx.prog.func('parso/python/pep8.py', 'PEP8Normalizer.visit_node'),
             ctx.prog.func('parso/normalizer.py', 'Normalizer.walk')]
    eff.eff_2(ctx, rep, roots, 'pep8')
    eff.eff_4(ctx, rep, roots)
    # 292: the end-of-file test treats \n and \r alike
    rep.rule('NORM-9', "the 'no newline at end of file' test treats \\n and \\r symmetrically")
    from ..facts import guards_of
    from ..model import AnalysisError
    pmod = ctx.prog.mod('parso/python/pep8.py')
    pfolder = ctx.folder('parso/python/pep8.py')
    found = False
    for f in pmod.funcs.values():
        for n in walk_own(f.node):
            if not (isinstance(n, ast.Call) and isinstance(n.func, ast.Attribute) and n.func.attr == 'add_issue'
                    and len(n.args) >= 2 and isinstance(n.args[1], ast.Constant) and n.args[1].value == 292):
                continue
            found = True
            # every string constant the guards of this report test (module-level constants resolved)
            ends, members = set(), set()
            texts = []
            for test, _pol in guards_of(n, f.node):
                texts.append(norm(test, 200))
                for x in ast.walk(test):
                    if isinstance(x, ast.Call) and isinstance(x.func, ast.Attribute) and x.func.attr == 'endswith' and x.args:
                        for c in ast.walk(x.args[0]):
                            if isinstance(c, ast.Constant) and isinstance(c.value, str):
                                ends.add(c.value)
                    if isinstance(x, ast.Compare) and len(x.ops) == 1 and isinstance(x.ops[0], (ast.In, ast.NotIn, ast.Eq, ast.NotEq)):
                        comp = x.comparators[0]
                        consts = [c.value for c in ast.walk(comp) if isinstance(c, ast.Constant) and isinstance(c.value, str)]
                        if isinstance(comp, ast.Name):
                            try:
                                v = pfolder.get(comp.id)
                            except AnalysisError:
                                v = None
                            if isinstance(v, (set, frozenset, tuple, list)):
                                consts = [c for c in v if isinstance(c, str)]
                        members |= set(consts)
            construct = '292 reported when ' + ' / '.join(texts)[:200]
            if not (ends | members) & {'\n', '\r', '\r\n'}:
                rep.skip('NORM-9', 'parso/python/pep8.py', f.qual, construct,
                         'the 292 condition does not test newline characters; whether it is exact is value reasoning (not decided)')
                continue
            ok = (('\n' in ends) == ('\r' in ends)) and (('\n' in members) == ('\r' in members))
            rep.ob('NORM-9', 'parso/python/pep8.py', f.qual, construct, ok, '292 is decided for one newline style only')
    if not found:
        raise AnalysisError('anchor vanished: the report of issue 292 in pep8.py')
    # no state outlives a call: no shared write reachable from the entry points of this property
    from ..rules import eff as _eff
    _eff.eff_1(ctx, rep, only=[('parso/grammar.py', 'Grammar._get_normalizer_issues')], minimum=20)
    normr.norm_12(ctx, rep)      # None-able indentation attributes (tab configuration)
    normr.norm_14(ctx, rep)      # walks up the indentation stack stop at the root
    # leaf text taken for syntax where a sibling is then addressed by index arithmetic (F22: '==' in a format spec)
    from ..rules import tc as _tc

    def _sibling_access(f, eff):
        for x in ast.walk(eff):
            if isinstance(x, ast.Call) and isinstance(x.func, ast.Attribute) and x.func.attr == 'index':
                return True
            if isinstance(x, ast.Subscript) and any(isinstance(y, ast.BinOp) for y in ast.walk(x.slice)):
                return True
        return False
    rep.rule('TC-1', 'in pep8.py the text of a leaf is compared with keyword / operator spellings, with a neighbour then addressed by '
                     'index arithmetic, only on keyword / operator leaves')
    _tc.tc_sites(ctx, rep, 'parso/python/pep8.py', 'TC-1', wanted=_sibling_access, reason_scope='an access to a sibling by index arithmetic')
    rep.minimum('TC-1', 1)
    from ..rules import normr as _n11
    _n11.norm_11(ctx, rep)      # prefix part columns: first-line state does not leak into later lines
    from ..rules import normr as _n13
    _n13.norm_13(ctx, rep)      # a prefix is split with a start position computed from its own leaf
    from ..rules import dar as _idx1
    _idx1.idx_1(ctx, rep, ['parso/python/pep8.py', 'parso/normalizer.py', 'parso/python/errors.py'])     # no constant index into a freshly filtered list
    from ..rules import dar as _loop1
    _loop1.loop_1(ctx, rep, ['parso/python/pep8.py', 'parso/normalizer.py', 'parso/python/prefix.py'])      # a value computed for one element of a loop is not used for the next one
    from ..rules import tok as _tok4
    _tok4.tok_4(ctx, rep, order=True)      # "the same whether the tree came from a fresh parse or an incremental re-parse": the diff parser reads the indentation stack when a token arrives
    rep.note('Not decided: positions inside the file, non-negative columns, equality of issue lists across fresh / '
             'incremental / cached trees.')
