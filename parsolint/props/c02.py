"""C02 - error recovery is total: structural necessary conditions in parser and tokenizer."""
from ..rules import par, tok, gr, dar


def check(ctx, rep):
    par.par_2(ctx, rep)
    par.par_1(ctx, rep)
    par.par_9(ctx, rep)
    par.par_3(ctx, rep)
    dar.da_rule(ctx, rep, ['parso/python/tokenize.py', 'parso/parser.py', 'parso/python/parser.py',
                           'parso/tree.py', 'parso/utils.py', 'parso/grammar.py'])
    tok.tok_6(ctx, rep)
    tok.tok_7(ctx, rep)
    tok.tok_9(ctx, rep)
    tok.tok_5(ctx, rep)
    gr.gr_1_4(ctx, rep, with_follow=False)
    par.par_13(ctx, rep)      # the engine is iterative: no interpreter frame per reduced rule
    # a parse that was abandoned half-way (exception, interrupt) must not leave anything behind for the next one
    from ..rules import eff as _eff
    _eff.eff_1(ctx, rep, only=[('parso/grammar.py', 'Grammar.parse')], minimum=20)
    rep.assume('Parser.error_recovery dereferences last_leaf (None when the top stack entry is empty) only for DEDENT '
               'tokens; that a DEDENT never arrives on an empty stack entry is a tokenizer invariant, not decided here')
    from ..rules import par as _par14
    _par14.par_14(ctx, rep)     # INDENT / DEDENT bookkeeping sees every token once (not the tokens recovery re-feeds)
    from ..rules import tok as _tok13
    _tok13.tok_13(ctx, rep)     # the indentation of a logical line is decided once
    from ..rules import rxr as _rx14
    _rx14.rx_14(ctx, rep)       # no exponentially ambiguous pattern: the matcher terminates in practice on every text
    par.par_15(ctx, rep)      # the parser does not walk the tree it is building (no stack in proportion to the nesting depth)
    rep.note('Not decided: absence of every implicit exception; the shape clauses (root has no parent, last child is '
             'the end marker).')
