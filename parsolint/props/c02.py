"""C02 - error recovery is total: structural necessary conditions in parser and tokenizer."""
from ..rules import par, tok, gr, dar


def check(ctx, rep):
    par.par_2(ctx, rep)
    par.par_1(ctx, rep)
    par.par_9(ctx, rep)
    par.par_3(ctx, rep)
    dar.da_rule(ctx, rep, ['parso/python/tokenize.py', 'parso/parser.py', 'parso/python/parser.py',
                           'parso/tree.py', 'parso/utils.py', 'parso/grammar.py'])
    tok.tok_6(ctx, rep)
    tok.tok_7(ctx, rep)
    tok.tok_9(ctx, rep)
    tok.tok_5(ctx, rep)
    gr.gr_1_4(ctx, rep, with_follow=False)
    rep.assume('Parser.error_recovery dereferences last_leaf (None when the top stack entry is empty) only for DEDENT '
               'tokens; that a DEDENT never arrives on an empty stack entry is a tokenizer invariant, not decided here')
    rep.note('Not decided: absence of every implicit exception; the shape clauses (root has no parent, last child is '
             'the end marker).')
