"""C18 - parsing is a pure function: no shared writes / global effects reachable from the entry points."""
from ..rules import eff


def check(ctx, rep):
    reach, prev = eff.eff_1(ctx, rep)
    eff.eff_3(ctx, rep, reach, prev)
    roots = [ctx.prog.funcs[k] for k in sorted(reach)]
    eff.eff_4(ctx, rep, roots)
    eff.eff_5(ctx, rep)
    eff.memo_1(ctx, rep)      # the reasoned write-once memos: their keys determine their values
    rep.assume('no reflection (setattr / __dict__ / exec) is used to write shared state; call resolution policy of DESIGN.md section 1')
    from ..rules import eff as _eff6
    _eff6.eff_6(ctx, rep)        # no memo hands one mutable result to several callers
    rep.note('Absence of shared writes => every interleaving and call order yields the sequential result. '
             'Not decided: behaviour under recursion-limit pressure, GIL-free builds.')
    from ..rules import eff as _lm
    _lm.lmemo_1(ctx, rep)        # an activation-local memo stores under a key only what the key determines
