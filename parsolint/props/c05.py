"""C05 - trees conform to the grammar: who creates nodes, from which states, under which names."""
from ..rules import par, gr


def check(ctx, rep):
    from ..rules import shape as _shape
    _shape.gr_10b(ctx, rep, ['parso/python/tree.py', 'parso/python/parser.py'])
    par.par_3(ctx, rep)
    par.par_4(ctx, rep)
    par.par_5(ctx, rep)
    par.par_7(ctx, rep)
    par.par_10(ctx, rep)
    par.pop_shape(ctx, rep)
    par.par_12(ctx, rep)      # convert_node names the node after the reduced nonterminal
    par.par_11(ctx, rep)      # Keyword vs Name leaves: decided on the token text itself
    gr.gr_7(ctx, rep)
    gr.gr_6(ctx, rep)
    gr.par_8(ctx, rep)
    from ..rules import cache as _c1
    _c1.cache_1(ctx, rep, grammar_only=True)      # a tree served from the cache was built by the grammar that is asked (first-level key = hash of its text)
    rep.note('Not decided: that the children of each created node are a sentence of the rule (C08 + run-time behaviour).')
