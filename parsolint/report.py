"""Obligations, known findings, evidence and exit codes."""
import hashlib
import json
import os
import time

from .model import AnalysisError

VERIF = os.path.dirname(os.path.dirname(os.path.abspath(__file__)))
KNOWN_PATH = os.path.join(VERIF, 'known_findings.json')


class Ob:
    __slots__ = ('rule', 'file', 'qual', 'construct', 'ok', 'detail', 'witness', 'reason')

    def __init__(self, rule, file, qual, construct, ok, detail, witness):
        self.rule, self.file, self.qual, self.construct = rule, file, qual, construct
        self.ok, self.detail, self.witness = ok, detail, witness
        self.reason = None

    @property
    def key(self):
        return (self.rule, self.file, self.qual, self.construct)

    def as_dict(self):
        d = {'rule': self.rule, 'file': self.file, 'function': self.qual,
             'construct': self.construct, 'ok': self.ok}
        if self.detail and not self.ok:
            d['detail'] = self.detail
        if self.reason:
            d['accepted_because'] = self.reason
        if self.witness is not None and not self.ok:
            d['witness'] = self.witness
        return d


def load_known():
    if not os.path.exists(KNOWN_PATH):
        return []
    with open(KNOWN_PATH) as f:
        return json.load(f).get('findings', [])


class Report:
    def __init__(self, prop, tier='quick', root='/repo', seed=0):
        self.prop = prop
        self.tier = tier
        self.root = root
        self.seed = seed
        self.obs = []
        self.skipped = []
        self.notes = []
        self.assumptions = []
        self.minimums = []
        self.stats = {}
        self.t0 = time.time()
        self.rules_doc = {}
        self.analysis_errors = []

    # ------------------------------------------------------------------
    def rule(self, rule, text):
        """Declare a rule and its one-line statement (printed in evidence)."""
        self.rules_doc[rule] = text

    def ob(self, rule, file, qual, construct, ok, detail='', witness=None, reason=None):
        o = Ob(rule, file, qual, construct, bool(ok), detail, witness)
        o.reason = reason
        self.obs.append(o)
        return o.ok

    def skip(self, rule, file, qual, construct, reason):
        self.skipped.append({'rule': rule, 'file': file, 'function': qual,
                             'construct': construct, 'unchecked_because': reason})

    def note(self, text):
        self.notes.append(text)

    def assume(self, text):
        if text not in self.assumptions:
            self.assumptions.append(text)

    def minimum(self, rule, n, what=''):
        self.minimums.append((rule, n, what))

    def stat(self, key, value):
        self.stats[key] = value

    # ------------------------------------------------------------------
    def count(self, rule):
        return sum(1 for o in self.obs if o.rule == rule)

    def finish(self, replay_key=None):
        """Write evidence, print verdict lines, return the exit status."""
        below = []
        for rule, n, what in self.minimums:
            got = self.count(rule)
            if got < n:
                below.append('rule %s matched %d instance(s), fewer than the %d confirmed by hand%s'
                             % (rule, got, n, (' (' + what + ')') if what else ''))
        known = [k for k in load_known() if self.prop in k.get('properties', [])]
        known_open = {(k['rule'], k['file'], k['function'], k['construct']): k
                      for k in known if k.get('status') == 'known'}
        failed = [o for o in self.obs if not o.ok]
        # de-duplicate failures by key
        seen = set()
        uniq = []
        for o in failed:
            if o.key not in seen:
                seen.add(o.key)
                uniq.append(o)
        violations = []
        known_hits = []
        for o in uniq:
            if o.key in known_open:
                known_hits.append((o, known_open[o.key]))
            else:
                violations.append(o)
        for o, k in known_hits:
            print('KNOWN-FINDING: property=%s %s %s:%s %s -- %s'
                  % (self.prop, o.rule, o.file, o.qual, o.construct, k.get('what', o.detail)))
        replay_dir = os.path.join(VERIF, 'replay')
        for o in violations:
            os.makedirs(replay_dir, exist_ok=True)
            h = hashlib.sha1(repr(o.key).encode()).hexdigest()[:12]
            path = os.path.join(replay_dir, '%s-%s-%s.json' % (self.prop, o.rule, h))
            with open(path, 'w') as f:
                json.dump({'property': self.prop, 'root': self.root, **o.as_dict()}, f, indent=1)
            print('  %s %s:%s\n    construct: %s\n    %s%s' % (
                o.rule, o.file, o.qual, o.construct, o.detail,
                ('\n    witness: %r' % (o.witness,)) if o.witness is not None else ''))
            print('VIOLATION property=%s replay=%s' % (self.prop, path))
        if below and not violations:
            # a rule that lost its instances passes vacuously: the analysis, not the repository, is broken
            raise AnalysisError('; '.join(below))
        self._write_evidence(len(violations), len(known_hits))
        ndis = sum(1 for o in self.obs if o.ok)
        print('%s: %d obligations, %d discharged, %d known finding(s), %d violation(s), %d unchecked, %.2fs'
              % (self.prop, len(self.obs), ndis, len(known_hits), len(violations),
                 len(self.skipped), time.time() - self.t0))
        if replay_key is not None:
            hit = [o for o in uniq if list(o.key) == list(replay_key)]
            if hit:
                print('REPLAY: obligation still fails: %s' % (hit[0].detail,))
                return 1
            print('REPLAY: obligation no longer fails')
            return 0
        return 1 if violations else 0

    def _write_evidence(self, nviol, nknown):
        by_rule = {}
        for o in self.obs:
            r = by_rule.setdefault(o.rule, {'obligations': 0, 'discharged': 0})
            r['obligations'] += 1
            r['discharged'] += int(o.ok)
        for r, doc in self.rules_doc.items():
            by_rule.setdefault(r, {'obligations': 0, 'discharged': 0})['statement'] = doc
        samples = []
        per_rule_seen = {}
        for o in self.obs:
            n = per_rule_seen.get(o.rule, 0)
            if n < 3 or not o.ok or o.reason:
                samples.append(o.as_dict())
                per_rule_seen[o.rule] = n + 1
        distinct = len({o.key for o in self.obs})
        ev = {
            'property_id': self.prop,
            'tier': self.tier,
            'seed': int(self.seed),
            'level': 'other',
            'coverage': {
                'explanation': (
                    'Static analysis of the source under %s (ast / own EBNF reader / re._parser); '
                    'no parso code was executed. One obligation per rule instance (function, call '
                    'site, regex pair, grammar state ...); an obligation is discharged when the rule '
                    'holds at that construct on every path / for every string / for every sentence.'
                    % self.root),
                'obligations': len(self.obs),
                'discharged': sum(1 for o in self.obs if o.ok),
                'evaluations': max(1, len(self.obs)),
                'distinct_nontrivial': distinct,
                'rule': 'one case per (rule, file, function, normalised construct); distinct = distinct keys; '
                        'every case is a non-trivial instance because rules only emit obligations at '
                        'constructs that match their anchor pattern',
                'rules': by_rule,
                'samples': samples[:60],
                'unchecked': self.skipped[:80],
                'unchecked_count': len(self.skipped),
                'known_findings_reported': nknown,
                'stats': self.stats,
                'notes': self.notes,
                'checker_cmd': './check %s --tier %s' % (self.prop, self.tier),
                'trusted_base': ['CPython ast module', 're._parser (syntax only)',
                                 'parsolint engines (self-tested by the must-fire / must-stay-silent matrix)'],
                'exhaustive': False,
            },
            'assumptions': self.assumptions,
            'wall_s': round(time.time() - self.t0, 3),
            'violations': nviol,
        }
        os.makedirs(os.path.join(VERIF, 'evidence'), exist_ok=True)
        path = os.environ.get('PARSOLINT_EVIDENCE') or os.path.join(VERIF, 'evidence', '%s.json' % self.prop)
        if path != os.devnull:
            with open(path, 'w') as f:
                json.dump(ev, f, indent=1, default=str)
