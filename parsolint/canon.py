"""Role-based canonicalisation of local names.

Several rules talk about the *roles* of locals (the pseudo-token match, the token text, the unpacked token
fields ...).  To keep them independent of how a local happens to be spelled, the functions those rules look at
are alpha-renamed to canonical spellings *by structure* before any rule runs: each recipe recognises a role
from the shape of the code (what a name is assigned from, which loop binds it, which call it is unpacked
from) and renames that name - consistently, with scoping - to the canonical spelling.  On a tree that already
uses the canonical spellings every recipe is a no-op; when a recipe does not find its shape the name is left
alone (a rule that then misses its anchor reports ANALYSIS-ERROR, never a violation).
"""
import ast
import re

from .transforms import _Renamer


def _norm(node):
    return ' '.join(ast.unparse(node).split())


def _own_stmts(fn):
    """Nodes of the function body, not descending into nested defs / classes (lambdas are descended)."""
    stack = list(reversed(fn.body))
    while stack:
        n = stack.pop()
        yield n
        if isinstance(n, (ast.FunctionDef, ast.AsyncFunctionDef, ast.ClassDef)):
            continue
        stack.extend(reversed(list(ast.iter_child_nodes(n))))


def _locals_of(fn):
    from .da import function_locals
    loc, params = function_locals(fn)
    return loc, params


def _rename(fn, old, new):
    if old == new:
        return True
    loc, params = _locals_of(fn)
    if old in params or new in loc:
        return False
    r = _Renamer({old: new})
    fn.body = [r.visit(s) for s in fn.body]
    return True


def _find_function(tree, qual):
    parts = qual.split('.')
    body = tree.body
    node = None
    for part in parts:
        node = None
        stack = list(body)
        while stack:
            n = stack.pop(0)
            if isinstance(n, (ast.FunctionDef, ast.AsyncFunctionDef, ast.ClassDef)) and n.name == part:
                node = n
                break
            if isinstance(n, (ast.If, ast.Try, ast.With, ast.For, ast.While)):
                for field in ('body', 'orelse', 'finalbody'):
                    stack.extend(getattr(n, field, []) or [])
                for h in getattr(n, 'handlers', []) or []:
                    stack.extend(h.body)
        if node is None:
            return None
        body = node.body
    return node if isinstance(node, (ast.FunctionDef, ast.AsyncFunctionDef)) else None


# ---------------------------------------------------------------------------------------------------------
# recipes
# ---------------------------------------------------------------------------------------------------------
def r_assigned_from(pattern, canonical):
    rx = re.compile(pattern)

    def run(fn, ctx):
        names = set()
        for n in _own_stmts(fn):
            if isinstance(n, ast.Assign) and rx.fullmatch(_norm(n.value)):
                for t in n.targets:
                    if isinstance(t, ast.Name):
                        names.add(t.id)
            elif isinstance(n, ast.AnnAssign) and n.value is not None and isinstance(n.target, ast.Name) \
                    and rx.fullmatch(_norm(n.value)):
                names.add(n.target.id)
        if len(names) == 1:
            _rename(fn, names.pop(), canonical)
    return run


def r_tuple_assigned_from(pattern, canonicals):
    rx = re.compile(pattern)

    def run(fn, ctx):
        for n in _own_stmts(fn):
            if isinstance(n, ast.Assign) and rx.fullmatch(_norm(n.value)):
                for t in n.targets:
                    if isinstance(t, ast.Tuple) and len(t.elts) == len(canonicals) \
                            and all(isinstance(e, ast.Name) for e in t.elts):
                        for e, c in zip(list(t.elts), canonicals):
                            if c:
                                _rename(fn, e.id, c)
                        return
    return run


def r_for_over(pattern, canonicals):
    rx = re.compile(pattern)

    def run(fn, ctx):
        for n in _own_stmts(fn):
            if isinstance(n, (ast.For, ast.AsyncFor)) and rx.fullmatch(_norm(n.iter)):
                tg = n.target.elts if isinstance(n.target, ast.Tuple) else [n.target]
                if len(tg) == len(canonicals) and all(isinstance(e, ast.Name) for e in tg):
                    for e, c in zip(list(tg), canonicals):
                        if c:
                            _rename(fn, e.id, c)
                    return
    return run


def r_unpack_namedtuple_call(callee, class_name):
    """a, b, c = callee(...)  ->  names of the fields of NamedTuple ``class_name`` (same module)."""
    def run(fn, ctx):
        fields = ctx.get('fields:' + class_name)
        if not fields:
            return
        for n in _own_stmts(fn):
            if isinstance(n, ast.Assign) and isinstance(n.value, ast.Call) and _norm(n.value.func) == callee:
                for t in n.targets:
                    if isinstance(t, ast.Tuple) and len(t.elts) == len(fields) and all(isinstance(e, ast.Name) for e in t.elts):
                        for e, c in zip(list(t.elts), fields):
                            _rename(fn, e.id, c)
                        return
    return run


def r_if_guarding_match(canonical_test, canonical_receiver):
    """if X: <m> = Y.match(line) ...   ->  X, Y"""
    def run(fn, ctx):
        for n in _own_stmts(fn):
            if isinstance(n, ast.If) and isinstance(n.test, ast.Name) and n.body:
                s = n.body[0]
                if isinstance(s, ast.Assign) and isinstance(s.value, ast.Call) and isinstance(s.value.func, ast.Attribute) \
                        and s.value.func.attr == 'match' and isinstance(s.value.func.value, ast.Name) \
                        and [_norm(a) for a in s.value.args] == ['line']:
                    x, y = n.test.id, s.value.func.value.id
                    _rename(fn, x, canonical_test)
                    _rename(fn, y, canonical_receiver)
                    return
    return run


def r_other_operand(pattern, canonical):
    """value matching ``pattern`` with one named group 'name' -> that name gets the canonical spelling."""
    rx = re.compile(pattern)

    def run(fn, ctx):
        for n in _own_stmts(fn):
            if isinstance(n, ast.Assign):
                m = rx.fullmatch(_norm(n.value))
                if m:
                    _rename(fn, m.group('name'), canonical)
                    return
    return run


def r_sole_nested_function(canonical):
    def run(fn, ctx):
        nested = [n for n in _own_stmts(fn) if isinstance(n, (ast.FunctionDef, ast.AsyncFunctionDef))]
        if len(nested) == 1:
            _rename(fn, nested[0].name, canonical)
    return run


def r_nested_function_containing(pattern, canonical):
    rx = re.compile(pattern)

    def run(fn, ctx):
        nested = [n for n in _own_stmts(fn) if isinstance(n, (ast.FunctionDef, ast.AsyncFunctionDef))
                  and rx.search(_norm(n))]
        if len(nested) == 1:
            _rename(fn, nested[0].name, canonical)
    return run


TOKEN_FIELDS = ['type_', 'value', 'start_pos', 'prefix']

RECIPES = {
    'parso/python/tokenize.py': {
        'tokenize_lines': [
            r_unpack_namedtuple_call('_get_token_collection', 'TokenCollection'),
            r_for_over(r'lines', ['line']),
            r_assigned_from(r'len\(line\)', 'max_'),
            r_assigned_from(r'pseudo_token\.match\(.*\)', 'pseudomatch'),
            r_assigned_from(r'pseudomatch\.group\(2\)', 'token'),
            r_tuple_assigned_from(r'pseudomatch\.span\(2\)', ['start', 'pos']),
            r_assigned_from(r'token\[0\]', 'initial'),
            r_assigned_from(r'\w+ \+ pseudomatch\.group\(1\)', 'prefix'),
            r_other_operand(r'(?P<name>\w+) \+ pseudomatch\.group\(1\)', 'additional_prefix'),
            r_if_guarding_match('contstr', 'endprog'),
            r_assigned_from(r'whitespace\.match\(line, pos\)', 'match'),
            r_nested_function_containing(r'ERROR_DEDENT', 'dedent_if_necessary'),
        ],
        '_close_fstring_if_necessary': [
            r_for_over(r'enumerate\(fstring_stack\)', ['fstring_stack_index', 'node']),
            r_assigned_from(r'string\.lstrip\(.*\)', 'lstripped_string'),
            r_assigned_from(r'len\(string\) - len\(lstripped_string\)', 'len_lstrip'),
        ],
        'tokenize': [r_assigned_from(r'split_lines\(code, keepends=True\)', 'lines')],
    },
    'parso/parser.py': {
        'BaseParser._add_token': [
            r_tuple_assigned_from(r'token', TOKEN_FIELDS),
            r_assigned_from(r'self\.stack', 'stack'),
            r_assigned_from(r'self\.convert_leaf\(.*\)', 'leaf'),
            r_assigned_from(r'stack\[-1\]\.dfa\.transitions\[.*\]', 'plan'),
        ],
        'BaseParser.error_recovery': [r_tuple_assigned_from(r'token', TOKEN_FIELDS)],
        'BaseParser.parse': [r_for_over(r'tokens', ['token']), r_assigned_from(r'self\.stack\[-1\]', 'tos')],
        'BaseParser._pop': [r_assigned_from(r'self\.stack\.pop\(\)', 'tos')],
    },
    'parso/python/parser.py': {
        'Parser.error_recovery': [
            r_tuple_assigned_from(r'token', ['typ', 'value', 'start_pos', 'prefix']),
            r_assigned_from(r'tree\.PythonErrorLeaf\(.*\)', 'error_leaf'),
            r_sole_nested_function('current_suite'),
            r_assigned_from(r'current_suite\(self\.stack\)', 'until_index'),
        ],
        'Parser.error_recovery.current_suite': [
            r_for_over(r'reversed\(list\(enumerate\(stack\)\)\)', ['until_index', 'stack_node']),
        ],
        'Parser._stack_removal': [r_assigned_from(r'\[.* for .* in self\.stack\[start_index:\] for .*\]', 'all_nodes')],
        'Parser._recovery_tokenize': [r_for_over(r'tokens', ['token']), r_assigned_from(r'self\._omit\w*', 'o')],
    },
    'parso/python/diff.py': {
        'DiffParser._diff_tokenize': [
            r_assigned_from(r'self\._tokenizer\(.*\)', 'tokens'),
            r_for_over(r'tokens', ['token']),
            r_tuple_assigned_from(r'next\(tokens\)', ['typ', 'string', 'start_pos', 'prefix']),
            r_assigned_from(r'self\._nodes_tree\.indents', 'indents'),
        ],
    },
    'parso/tree.py': {
        'NodeOrLeaf.get_next_leaf': [r_assigned_from(r'self|\w+\.parent|\w+\[\w+ \+ 1\]|\w+\.children\[0\]', 'node'),
                                     r_assigned_from(r'node\.parent\.children', 'c'),
                                     r_assigned_from(r'c\.index\(node\)', 'i')],
        'NodeOrLeaf.get_previous_leaf': [r_assigned_from(r'self|\w+\.parent|\w+\[\w+ - 1\]|\w+\.children\[-1\]', 'node'),
                                         r_assigned_from(r'node\.parent\.children', 'c'),
                                         r_assigned_from(r'c\.index\(node\)', 'i')],
        'NodeOrLeaf.dump': [r_sole_nested_function('_format_dump')],
    },
    'parso/utils.py': {
        'python_bytes_to_unicode': [r_nested_function_containing(r'coding', 'detect_encoding')],
        'split_lines': [r_assigned_from(r'string\.splitlines\(True\)', 'lst')],
    },
    'parso/python/errors.py': {
        '_iter_definition_exprs_from_lists': [r_sole_nested_function('check_expr')],
        '_NamedExprRule.is_issue': [r_nested_function_containing(r"\.type == 'comp_for'", 'process_comp_for')],
        '_NamedExprRule.is_issue.process_comp_for': [r_assigned_from(r'comp_for(\.children\[1\])?', 'comp')],
        '_AnnotatorRule.is_issue': [
            r_assigned_from(r'node\.parent\.children\[0\]|_remove_parens\(\w+\)', 'lhs'),
            r_assigned_from(r'lhs\.children', 'children'),
            r_assigned_from(r'children\[-1\]', 'trailer'),
        ],
    },
    'parso/python/tree.py': {
        'ImportFrom.get_from_names': [r_for_over(r'self\.children\[1:\]', ['n'])],
    },
    'parso/python/pep8.py': {
        'PEP8Normalizer.visit_leaf': [r_for_over(r'leaf\._split_prefix\(\)', ['part'])],
        'PEP8Normalizer._visit_node': [r_assigned_from(r'node\.type', 'typ')],
        'BracketNode.__init__': [r_assigned_from(r'parent|\w+\.parent', 'n'),
                                 r_assigned_from(r'n\.indentation', 'parent_indentation')],
    },
}


def canonicalise(rel, tree):
    recipes = RECIPES.get(rel)
    if not recipes:
        return
    ctx = {}
    for st in tree.body:
        if isinstance(st, ast.ClassDef) and any('NamedTuple' in _norm(b) for b in st.bases):
            ctx['fields:' + st.name] = [s.target.id for s in st.body
                                        if isinstance(s, ast.AnnAssign) and isinstance(s.target, ast.Name)]
    # outer functions first so that nested-function names are canonical before their own recipes run
    for qual in sorted(recipes, key=lambda q: q.count('.')):
        fn = _find_function(tree, qual)
        if fn is None:
            continue
        for recipe in recipes[qual]:
            try:
                recipe(fn, ctx)
            except Exception:
                # a recipe must never break the analysis; the names simply stay as they are
                pass


# ---------------------------------------------------------------------------------------------------------
# expression normal form (semantics preserving), applied to every analysed module
# ---------------------------------------------------------------------------------------------------------
def _is_const(n):
    return isinstance(n, ast.Constant) or (isinstance(n, (ast.Tuple, ast.List, ast.Set)) and all(_is_const(e) for e in n.elts))


class _NormalForm(ast.NodeTransformer):
    """* a constant on the left of == / != moves to the right            ('x' == a.b     -> a.b == 'x')
       * constant list / set displays on the right of in / not in become tuples (x in ['a'] -> x in ('a',))
       * not (a OP b) for OP in == != in not-in is is-not becomes the complementary comparison
       * n = n OP k  becomes  n OP= k   for a plain name n and a numeric constant k
    None of these changes what the program computes; rules are written against the normal form only."""

    _flip = {ast.Eq: ast.NotEq, ast.NotEq: ast.Eq, ast.In: ast.NotIn, ast.NotIn: ast.In, ast.Is: ast.IsNot, ast.IsNot: ast.Is}

    def visit_Compare(self, node):
        self.generic_visit(node)
        if len(node.ops) == 1:
            op, right = node.ops[0], node.comparators[0]
            if isinstance(op, (ast.Eq, ast.NotEq)) and _is_const(node.left) and not _is_const(right):
                node.left, node.comparators = right, [node.left]
            elif isinstance(op, (ast.In, ast.NotIn)) and isinstance(right, (ast.List, ast.Set)) and _is_const(right):
                new = ast.Tuple(elts=right.elts, ctx=ast.Load())
                ast.copy_location(new, right)
                node.comparators = [new]
        return node

    def visit_Call(self, node):
        self.generic_visit(node)
        # islice(X, k, None) / itertools.islice(X, k, None)  ->  X[k:]   (iterating a sequence from its k-th element)
        f = node.func
        name = f.id if isinstance(f, ast.Name) else (f.attr if isinstance(f, ast.Attribute) else None)
        if name == 'islice' and len(node.args) == 3 and not node.keywords \
                and isinstance(node.args[1], ast.Constant) and isinstance(node.args[1].value, int) \
                and isinstance(node.args[2], ast.Constant) and node.args[2].value is None:
            new = ast.Subscript(value=node.args[0], slice=ast.Slice(lower=node.args[1], upper=None, step=None), ctx=ast.Load())
            return ast.copy_location(new, node)
        return node

    def visit_UnaryOp(self, node):
        self.generic_visit(node)
        if isinstance(node.op, ast.Not) and isinstance(node.operand, ast.Compare) and len(node.operand.ops) == 1 \
                and type(node.operand.ops[0]) in self._flip:
            c = node.operand
            c.ops = [self._flip[type(c.ops[0])]()]
            return c
        if isinstance(node.op, ast.Not) and isinstance(node.operand, ast.UnaryOp) and isinstance(node.operand.op, ast.Not) \
                and isinstance(getattr(node, '_ctx_bool', None), bool):
            return node.operand.operand
        return node

    def visit_Assign(self, node):
        self.generic_visit(node)
        if len(node.targets) == 1 and isinstance(node.targets[0], ast.Name) and isinstance(node.value, ast.BinOp) \
                and isinstance(node.value.left, ast.Name) and node.value.left.id == node.targets[0].id \
                and isinstance(node.value.right, ast.Constant) and isinstance(node.value.right.value, (int, float)) \
                and not isinstance(node.value.right.value, bool):
            new = ast.AugAssign(target=node.targets[0], op=node.value.op, value=node.value.right)
            return ast.copy_location(new, node)
        return node


class _InlineReturn(ast.NodeTransformer):
    """x = EXPR; return x   ->   return EXPR     (adjacent statements, x a plain local): rules that look at what a
    function returns see the expression whether or not it went through a temporary."""

    def _scoped(self, fn):
        declared = set()
        for n in ast.walk(fn):
            if isinstance(n, (ast.Global, ast.Nonlocal)):
                declared.update(n.names)
        return declared

    def visit_FunctionDef(self, node):
        declared = self._scoped(node)
        self._blocks(node, declared)
        self.generic_visit(node)
        return node

    visit_AsyncFunctionDef = visit_FunctionDef

    def _blocks(self, fn, declared):
        for n in ast.walk(fn):
            for field in ('body', 'orelse', 'finalbody'):
                block = getattr(n, field, None)
                if not (isinstance(block, list) and block and isinstance(block[0], ast.stmt)):
                    continue
                i = 0
                while i + 1 < len(block):
                    a, b = block[i], block[i + 1]
                    if isinstance(a, ast.Assign) and len(a.targets) == 1 and isinstance(a.targets[0], ast.Name) \
                            and isinstance(b, ast.Return) and isinstance(b.value, ast.Name) and b.value.id == a.targets[0].id \
                            and a.targets[0].id not in declared:
                        new = ast.Return(value=a.value)
                        ast.copy_location(new, a)
                        block[i:i + 2] = [new]
                    i += 1


class _PlainAssign(ast.NodeTransformer):
    """x: T = v  ->  x = v   for plain names inside functions (annotations of locals are never evaluated);
    `if (x := E) ...:` -> `x = E; if x ...:` when the named expression is the first thing the test evaluates."""

    def __init__(self):
        self.depth = 0

    def visit_FunctionDef(self, node):
        self.depth += 1
        self.generic_visit(node)
        self.depth -= 1
        self._hoist(node)
        return node

    visit_AsyncFunctionDef = visit_FunctionDef

    def visit_ClassDef(self, node):
        d, self.depth = self.depth, 0
        self.generic_visit(node)
        self.depth = d
        return node

    def visit_AnnAssign(self, node):
        self.generic_visit(node)
        if self.depth and node.value is not None and isinstance(node.target, (ast.Name, ast.Attribute)):
            new = ast.Assign(targets=[node.target], value=node.value)
            return ast.copy_location(new, node)
        return node

    @staticmethod
    def _first(test):
        if isinstance(test, ast.NamedExpr):
            return test, None, None
        if isinstance(test, ast.UnaryOp) and isinstance(test.op, ast.Not) and isinstance(test.operand, ast.NamedExpr):
            return test.operand, test, 'operand'
        if isinstance(test, ast.Compare) and isinstance(test.left, ast.NamedExpr):
            return test.left, test, 'left'
        return None, None, None

    def _hoist(self, fn):
        for n in ast.walk(fn):
            for field in ('body', 'orelse', 'finalbody'):
                block = getattr(n, field, None)
                if not (isinstance(block, list) and block and isinstance(block[0], ast.stmt)):
                    continue
                i = 0
                while i < len(block):
                    st = block[i]
                    if isinstance(st, ast.If):
                        w, holder, attr = self._first(st.test)
                        if w is not None and isinstance(w.target, ast.Name):
                            assign = ast.copy_location(ast.Assign(targets=[ast.Name(id=w.target.id, ctx=ast.Store())], value=w.value), st)
                            ref = ast.copy_location(ast.Name(id=w.target.id, ctx=ast.Load()), w)
                            if holder is None:
                                st.test = ref
                            else:
                                setattr(holder, attr, ref)
                            block.insert(i, assign)
                            i += 1
                    i += 1


_IDENT_CACHE = {}


def _identifiers_elsewhere(root, rel):
    """identifier -> number of package files other than ``rel`` that mention it"""
    import os
    if root not in _IDENT_CACHE:
        per_file = {}
        for dirpath, _, files in os.walk(os.path.join(root, 'parso')):
            for fn in files:
                if fn.endswith('.py'):
                    p = os.path.join(dirpath, fn)
                    try:
                        with open(p, encoding='utf-8') as f:
                            per_file[os.path.relpath(p, root)] = set(re.findall(r'[A-Za-z_]\w*', f.read()))
                    except OSError:
                        pass
        _IDENT_CACHE[root] = per_file
    out = set()
    for r, names in _IDENT_CACHE[root].items():
        if r != rel:
            out |= names
    return out


def _inline_delegators(tree, elsewhere=frozenset()):
    """def f(a, b): return g(a, b)  +  def g(a, b): BODY   ->   def f(a, b): BODY     when g lives next to f, has no
    decorators and is used nowhere else in the module (the wrapper / implementation split of a function).  Rules
    anchor at API-level function names; this keeps them looking at the code that does the work."""
    refs = {}
    for n in ast.walk(tree):
        if isinstance(n, ast.Name):
            refs[n.id] = refs.get(n.id, 0) + 1
        elif isinstance(n, ast.Attribute):
            refs[n.attr] = refs.get(n.attr, 0) + 1

    def process(body, in_class):
        defs = {st.name: st for st in body if isinstance(st, (ast.FunctionDef, ast.AsyncFunctionDef))}
        changed = True
        while changed:
            changed = False
            for f in list(defs.values()):
                stmts = f.body
                doc = []
                if stmts and isinstance(stmts[0], ast.Expr) and isinstance(stmts[0].value, ast.Constant) \
                        and isinstance(stmts[0].value.value, str):
                    doc, stmts = stmts[:1], stmts[1:]
                if len(stmts) != 1 or not isinstance(stmts[0], ast.Return) or not isinstance(stmts[0].value, ast.Call):
                    continue
                call = stmts[0].value
                fparams = [x.arg for x in f.args.posonlyargs + f.args.args]
                if in_class:
                    if not (fparams and isinstance(call.func, ast.Attribute) and isinstance(call.func.value, ast.Name)
                            and call.func.value.id == fparams[0]):
                        continue
                    gname = call.func.attr
                    passed = fparams[1:]
                else:
                    if not isinstance(call.func, ast.Name):
                        continue
                    gname = call.func.id
                    passed = fparams
                g = defs.get(gname)
                if g is None or g is f or g.decorator_list or refs.get(gname, 0) != 1 or gname in elsewhere:
                    continue
                if not all(isinstance(a, ast.Name) for a in call.args) or [a.id for a in call.args] != passed:
                    continue
                kw = {k.arg: k.value for k in call.keywords}
                if any(k is None or not isinstance(v, ast.Name) or v.id != k for k, v in kw.items()):
                    continue
                if sorted(kw) != sorted(x.arg for x in f.args.kwonlyargs):
                    continue
                gparams = [x.arg for x in g.args.posonlyargs + g.args.args]
                if gparams != fparams or [x.arg for x in g.args.kwonlyargs] != [x.arg for x in f.args.kwonlyargs] \
                        or g.args.vararg or g.args.kwarg or f.args.vararg or f.args.kwarg:
                    continue
                gbody = g.body
                if gbody and isinstance(gbody[0], ast.Expr) and isinstance(gbody[0].value, ast.Constant) \
                        and isinstance(gbody[0].value.value, str) and doc:
                    gbody = gbody[1:]
                f.body = doc + gbody
                body.remove(g)
                del defs[gname]
                changed = True
        for st in body:
            if isinstance(st, ast.ClassDef):
                process(st.body, True)
    process(tree.body, False)


def norm_name(e):
    return e.id if isinstance(e, ast.Name) else None


def _inline_pure_helpers(tree):
    """_helper(a, b)  ->  the helper's return expression with a, b substituted, for private module-level helpers whose
    body is a single `return EXPR` (an extracted condition / sub-expression).  The helper itself stays defined."""
    import copy
    helpers = {}
    for st in tree.body:
        if isinstance(st, ast.FunctionDef) and st.name.startswith('_') and not st.decorator_list:
            body = st.body
            if body and isinstance(body[0], ast.Expr) and isinstance(body[0].value, ast.Constant) and isinstance(body[0].value.value, str):
                body = body[1:]
            a = st.args
            if len(body) == 1 and isinstance(body[0], ast.Return) and body[0].value is not None \
                    and not (a.vararg or a.kwarg or a.kwonlyargs or a.posonlyargs or a.defaults):
                expr = body[0].value
                if any(isinstance(n, (ast.Yield, ast.YieldFrom, ast.Await, ast.Lambda, ast.NamedExpr)) for n in ast.walk(expr)):
                    continue
                if isinstance(expr, ast.Call) and [norm_name(x) for x in expr.args] == [x.arg for x in a.args] \
                        and isinstance(expr.func, (ast.Name, ast.Attribute)):
                    continue          # a wrapper around another function: left to the delegator rule
                if any(isinstance(n, ast.Call) and isinstance(n.func, ast.Name) and n.func.id == st.name for n in ast.walk(expr)):
                    continue
                helpers[st.name] = ([x.arg for x in a.args], expr)
    if not helpers:
        return

    def simple(e):
        while isinstance(e, (ast.Attribute, ast.Subscript)):
            if isinstance(e, ast.Subscript) and not isinstance(e.slice, (ast.Constant, ast.Name, ast.Slice, ast.UnaryOp)):
                return False
            e = e.value
        return isinstance(e, (ast.Name, ast.Constant))

    class Inline(ast.NodeTransformer):
        def visit_FunctionDef(self, node):
            if node.name in helpers:
                return node          # keep the definition as it is
            self.generic_visit(node)
            return node

        def visit_Call(self, node):
            self.generic_visit(node)
            if isinstance(node.func, ast.Name) and node.func.id in helpers and not node.keywords:
                params, expr = helpers[node.func.id]
                if len(node.args) == len(params) and all(simple(a) for a in node.args):
                    bound = {n.id for n in ast.walk(expr) if isinstance(n, ast.Name) and isinstance(n.ctx, ast.Store)}
                    arg_names = {n.id for a in node.args for n in ast.walk(a) if isinstance(n, ast.Name)}
                    if bound & arg_names:
                        return node
                    mapping = dict(zip(params, node.args))

                    class Sub(ast.NodeTransformer):
                        def visit_Name(self, n):
                            if n.id in mapping and isinstance(n.ctx, ast.Load):
                                return ast.copy_location(copy.deepcopy(mapping[n.id]), n)
                            return n
                    new = Sub().visit(copy.deepcopy(expr))
                    return ast.copy_location(new, node)
            return node
    Inline().visit(tree)
    ast.fix_missing_locations(tree)


def _inline_callable_aliases(tree):
    """remove = os.remove; ... remove(p)   ->   os.remove(p)
    cache = parser_cache; ... cache[k]      ->   parser_cache[k]
    append = merged.append; ... append(x)   ->   merged.append(x)
    The look-up-binding idiom of performance passes: a local assigned exactly once from a dotted name that is rooted at
    a module-level / imported name (never rebound in the function), or from a method of a local that is itself assigned
    exactly once, is spelled out again, so that rules keep seeing the call they know."""
    import copy
    module_names = set()
    for st in tree.body:
        if isinstance(st, (ast.Import, ast.ImportFrom)):
            for al in st.names:
                module_names.add((al.asname or al.name).split('.')[0])
        elif isinstance(st, (ast.FunctionDef, ast.AsyncFunctionDef, ast.ClassDef)):
            module_names.add(st.name)
        elif isinstance(st, (ast.Assign, ast.AnnAssign)):
            for t in (st.targets if isinstance(st, ast.Assign) else [st.target]):
                for x in ast.walk(t):
                    if isinstance(x, ast.Name):
                        module_names.add(x.id)

    def own_nodes(fn):
        stack = list(fn.body)
        while stack:
            n = stack.pop()
            yield n
            if isinstance(n, (ast.FunctionDef, ast.AsyncFunctionDef, ast.ClassDef, ast.Lambda)):
                continue
            stack.extend(ast.iter_child_nodes(n))

    for fn in [n for n in ast.walk(tree) if isinstance(n, (ast.FunctionDef, ast.AsyncFunctionDef))]:
        a = fn.args
        params = {x.arg for x in a.posonlyargs + a.args + a.kwonlyargs}
        if a.vararg:
            params.add(a.vararg.arg)
        if a.kwarg:
            params.add(a.kwarg.arg)
        stores = {}
        declared = set()
        for n in own_nodes(fn):
            if isinstance(n, ast.Name) and isinstance(n.ctx, (ast.Store, ast.Del)):
                stores.setdefault(n.id, []).append(n)
            if isinstance(n, (ast.Global, ast.Nonlocal)):
                declared.update(n.names)
        # nested functions that rebind a name make it unsafe
        nested_stores = set()
        for n in ast.walk(fn):
            if n is not fn and isinstance(n, (ast.FunctionDef, ast.AsyncFunctionDef, ast.Lambda)):
                for x in ast.walk(n):
                    if isinstance(x, ast.Name) and isinstance(x.ctx, ast.Store):
                        nested_stores.add(x.id)
        mapping = {}
        for name, sts in stores.items():
            if len(sts) != 1 or name in params or name in declared or name in nested_stores:
                continue
            st = getattr(sts[0], '_p', None)
        # find the assignment statements (no parent links yet at this stage)
        for n in own_nodes(fn):
            if not (isinstance(n, ast.Assign) and len(n.targets) == 1 and isinstance(n.targets[0], ast.Name)):
                continue
            name = n.targets[0].id
            if len(stores.get(name, [])) != 1 or name in params or name in declared or name in nested_stores:
                continue
            v = n.value
            chain = v
            depth = 0
            while isinstance(chain, ast.Attribute):
                chain = chain.value
                depth += 1
            if not isinstance(chain, ast.Name):
                continue
            root = chain.id
            if root in module_names and root not in stores and root not in params:
                if depth == 0 and not root.startswith('_') and root not in ('parser_cache',):
                    # a bare global: only containers / functions of the module (private names, the cache) are aliased
                    pass
                mapping[name] = v
            elif (depth == 1 and len(stores.get(root, [])) == 1 and root not in params) \
                    or (depth >= 1 and root in params and root not in stores and root not in nested_stores):
                # bound method of a local object / of self: only used as a callee
                mapping[name] = ('method', v)
        if not mapping:
            continue

        class Sub(ast.NodeTransformer):
            def visit_FunctionDef(self, node):
                return node if node is not fn else self.generic_visit(node)
            visit_AsyncFunctionDef = visit_FunctionDef

            def visit_Lambda(self, node):
                return node

            def visit_Call(self, node):
                self.generic_visit(node)
                if isinstance(node.func, ast.Name) and isinstance(mapping.get(node.func.id), tuple):
                    node.func = copy.deepcopy(mapping[node.func.id][1])
                return node

            def visit_Name(self, node):
                m = mapping.get(node.id)
                if m is not None and not isinstance(m, tuple) and isinstance(node.ctx, ast.Load):
                    return ast.copy_location(copy.deepcopy(m), node)
                return node
        Sub().visit(fn)
    ast.fix_missing_locations(tree)


def _inline_children_aliases(tree):
    """children = node.children; ... children[2]   ->   node.children[2]
    The hoisting idiom for the one attribute many rules reason about: a local assigned exactly once from
    `<name>.children` (the name never rebound, `.children` of that name never re-assigned in the function) is spelled
    out again.  Both spellings denote the same list object."""
    import copy

    def own_nodes(fn):
        stack = list(fn.body)
        while stack:
            n = stack.pop()
            yield n
            if isinstance(n, (ast.FunctionDef, ast.AsyncFunctionDef, ast.ClassDef, ast.Lambda)):
                continue
            stack.extend(ast.iter_child_nodes(n))
    for fn in [n for n in ast.walk(tree) if isinstance(n, (ast.FunctionDef, ast.AsyncFunctionDef))]:
        a = fn.args
        params = {x.arg for x in a.posonlyargs + a.args + a.kwonlyargs}
        stores = {}
        attr_stores = set()
        nested_names = set()
        for n in own_nodes(fn):
            if isinstance(n, ast.Name) and isinstance(n.ctx, (ast.Store, ast.Del)):
                stores.setdefault(n.id, []).append(n)
            if isinstance(n, ast.Attribute) and isinstance(n.ctx, (ast.Store, ast.Del)) and n.attr == 'children' \
                    and isinstance(n.value, ast.Name):
                attr_stores.add(n.value.id)
        for n in ast.walk(fn):
            if n is not fn and isinstance(n, (ast.FunctionDef, ast.AsyncFunctionDef, ast.Lambda)):
                for x in ast.walk(n):
                    if isinstance(x, ast.Name):
                        nested_names.add(x.id)
        mapping = {}
        for n in own_nodes(fn):
            if isinstance(n, ast.Assign) and len(n.targets) == 1 and isinstance(n.targets[0], ast.Name) \
                    and isinstance(n.value, ast.Attribute) and n.value.attr == 'children' and isinstance(n.value.value, ast.Name):
                name, recv = n.targets[0].id, n.value.value.id
                if len(stores.get(name, [])) == 1 and name not in params and name not in nested_names \
                        and (recv in params and recv not in stores or len(stores.get(recv, [])) == 1 and recv not in params) \
                        and recv not in attr_stores:
                    # only when the assignment is a plain statement of the function body or of a try body (not conditional)
                    mapping[name] = n.value
        if not mapping:
            continue

        class Sub(ast.NodeTransformer):
            def visit_FunctionDef(self, node):
                return node if node is not fn else self.generic_visit(node)
            visit_AsyncFunctionDef = visit_FunctionDef

            def visit_Lambda(self, node):
                return node

            def visit_Name(self, node):
                if node.id in mapping and isinstance(node.ctx, ast.Load):
                    return ast.copy_location(copy.deepcopy(mapping[node.id]), node)
                return node
        Sub().visit(fn)
    ast.fix_missing_locations(tree)


def _private_record_returns(tree):
    """return _Rec(a, b, c)  ->  return (a, b, c)   for a private NamedTuple class `_Rec` of the module (fields in
    declaration order; keyword arguments placed by field name).  A function that used to hand back a plain tuple and
    now hands back a typed record is the same function for every rule that follows the elements to the caller's
    unpacking assignment.  Public record classes (the token classes) are left alone: rules look for their constructions."""
    records = {}
    for st in tree.body:
        if isinstance(st, ast.ClassDef) and st.name.startswith('_') and any(
                (isinstance(b, ast.Name) and b.id == 'NamedTuple') or (isinstance(b, ast.Attribute) and b.attr == 'NamedTuple')
                for b in st.bases):
            fields = [x.target.id for x in st.body if isinstance(x, ast.AnnAssign) and isinstance(x.target, ast.Name)]
            plain = all(isinstance(x, (ast.AnnAssign, ast.Expr, ast.Pass)) for x in st.body)
            if fields and plain:
                records[st.name] = fields
    if not records:
        return
    for n in ast.walk(tree):
        if isinstance(n, ast.Return) and isinstance(n.value, ast.Call) and isinstance(n.value.func, ast.Name) \
                and n.value.func.id in records:
            fields = records[n.value.func.id]
            c = n.value
            if any(isinstance(a, ast.Starred) for a in c.args) or any(k.arg is None for k in c.keywords):
                continue
            elts = list(c.args)
            rest = {k.arg: k.value for k in c.keywords}
            ok = True
            for fld in fields[len(elts):]:
                if fld in rest:
                    elts.append(rest.pop(fld))
                else:
                    ok = False
            if ok and not rest and len(elts) == len(fields):
                n.value = ast.copy_location(ast.Tuple(elts=elts, ctx=ast.Load()), c)


def normal_form(tree, root=None, rel=None):
    _private_record_returns(tree)
    # statement-level forms first (so that `x = E; return x` bodies count as single-return functions), then the
    # wrapper / implementation pairs, then extracted one-expression helpers, then expression forms
    _PlainAssign().visit(tree)
    _inline_callable_aliases(tree)
    _inline_children_aliases(tree)
    _InlineReturn().visit(tree)
    _inline_delegators(tree, _identifiers_elsewhere(root, rel) if root and rel else frozenset())
    _inline_pure_helpers(tree)
    _NormalForm().visit(tree)
    _InlineReturn().visit(tree)
    ast.fix_missing_locations(tree)
