"""Thorough tier: test the checker both ways on scratch copies of the analysed tree.

must-fire variants   : one construct broken (guard dropped, release deleted, writer added in the wrong place,
                       alternative removed from a grammar, character removed from a class ...); the variant must
                       still byte-compile and the check must report a violation of one of the expected rules.
must-stay-silent     : behaviour-preserving refactors (renamed locals, reordered independent statements,
                       if -> early return, reformatting, added helper); the check must stay silent.

A missed must-fire variant or a firing silent variant marks the *checker* broken (AnalysisError -> exit 2).
Scratch copies live under tempfile.mkdtemp() (outside /repo and /verif) and are removed immediately.
"""
import importlib
import io
import os
import py_compile
import shutil
import sys
import tempfile
from concurrent.futures import ProcessPoolExecutor

from .model import AnalysisError


def load_variants():
    from .variants import VARIANTS
    return VARIANTS


def _apply(root, variant):
    """Apply the edits of a variant to the scratch tree; returns None or a reason why it is not applicable."""
    if variant.get('transform'):
        from . import transforms
        getattr(transforms, variant['transform'])(root)
        return None
    for rel, old, new in variant['edits']:
        path = os.path.join(root, rel)
        if not os.path.exists(path):
            return 'file %s missing' % rel
        with open(path, encoding='utf-8') as f:
            s = f.read()
        if s.count(old) != 1:
            return 'anchor text occurs %d times in %s' % (s.count(old), rel)
        s = s.replace(old, new)
        with open(path, 'w', encoding='utf-8') as f:
            f.write(s)
        if rel.endswith('.py'):
            try:
                compile(s, path, 'exec')
            except SyntaxError as e:
                return 'variant does not compile: %s' % e
    return None


def _run_variant(args):
    prop, src_root, variant = args
    from .ctx import Ctx
    from .report import Report
    from .props import REGISTRY
    tmp = tempfile.mkdtemp(prefix='parsolint-variant-')
    try:
        shutil.copytree(os.path.join(src_root, 'parso'), os.path.join(tmp, 'parso'),
                        ignore=shutil.ignore_patterns('__pycache__', '*.pyc'))
        why = _apply(tmp, variant)
        if why:
            return (variant['id'], 'not-applicable', why, [])
        rep = Report(prop, 'thorough', tmp)
        try:
            REGISTRY[prop](Ctx(tmp), rep)
        except AnalysisError as e:
            return (variant['id'], 'analysis-error', str(e), [])
        failed = [o for o in rep.obs if not o.ok]
        from .report import load_known
        known = {(k['rule'], k['file'], k['function'], k['construct']) for k in load_known()
                 if k.get('status') == 'known' and prop in k.get('properties', [])}
        new = [o for o in failed if o.key not in known]
        if not new and variant.get('reference_counts') is not None:
            # a whole-tree behaviour-preserving transform must not make any rule lose (or gain) instances
            mine = {}
            for o in rep.obs:
                mine[o.rule] = mine.get(o.rule, 0) + 1
            if mine != variant['reference_counts']:
                diff = sorted((r, variant['reference_counts'].get(r), mine.get(r))
                              for r in set(mine) | set(variant['reference_counts'])
                              if mine.get(r) != variant['reference_counts'].get(r))
                return (variant['id'], 'analysis-error', 'rule instance counts changed under the transform: %s' % diff[:6], [])
        if not new:
            for rule, n, what in rep.minimums:
                if rep.count(rule) < n:
                    return (variant['id'], 'analysis-error', 'rule %s below minimum' % rule, [])
        return (variant['id'], 'fired' if new else 'silent', '',
                sorted({(o.rule, o.file, o.qual) for o in new})[:6])
    finally:
        shutil.rmtree(tmp, ignore_errors=True)


WHOLE_TREE = [
    {'id': 'whole-tree-reformat', 'kind': 'silent', 'transform': 'reformat_tree',
     'what': 'every module re-printed by ast.unparse (layout, quoting, parentheses, comments change; behaviour does not)'},
    {'id': 'whole-tree-alpha-rename', 'kind': 'silent', 'transform': 'alpha_rename_tree',
     'what': 'every non-parameter local variable and nested function of every function renamed (suffix added)'},
    {'id': 'whole-tree-opaque-rename', 'kind': 'silent', 'transform': 'opaque_rename_tree',
     'what': 'every non-parameter local variable and nested function renamed to a meaningless name (zq0, zq1 ...)'},
    {'id': 'whole-tree-swap-branches', 'kind': 'silent', 'transform': 'swap_branches_tree',
     'what': 'every if/else with a plain else branch gets its test negated and its branches exchanged'},
    {'id': 'whole-tree-hoist-else', 'kind': 'silent', 'transform': 'hoist_else_tree',
     'what': 'else branches after a body that ends in return/raise/continue/break are de-nested (no-else-return)'},
    {'id': 'whole-tree-nest-tail', 'kind': 'silent', 'transform': 'nest_tail_tree',
     'what': 'statements after an if whose body ends in return/raise are moved into an else branch'},
    {'id': 'whole-tree-percent-to-fstring', 'kind': 'silent', 'transform': 'percent_to_fstring_tree',
     'what': "every '%s' % (...) with constant format becomes an f-string"},
    {'id': 'whole-tree-membership-list', 'kind': 'silent', 'transform': 'membership_list_tree',
     'what': 'constant tuples on the right of in / not in become lists'},
    {'id': 'whole-tree-yoda', 'kind': 'silent', 'transform': 'yoda_tree',
     'what': "every  a.b == 'c'  becomes  'c' == a.b"},
    {'id': 'whole-tree-aug-expand', 'kind': 'silent', 'transform': 'aug_expand_tree',
     'what': 'n += 1 becomes n = n + 1 for plain names'},
    {'id': 'whole-tree-ret-via-local', 'kind': 'silent', 'transform': 'ret_via_local_tree',
     'what': 'return EXPR becomes result_ = EXPR; return result_'},
    {'id': 'whole-tree-continue-guard', 'kind': 'silent', 'transform': 'continue_guard_tree',
     'what': 'loop bodies of the form `if c: continue; REST` become `if not c: REST`'},
    {'id': 'whole-tree-nest-and', 'kind': 'silent', 'transform': 'nest_and_tree',
     'what': '`if a and b: X` (no else) becomes nested ifs'},
    {'id': 'whole-tree-early-return', 'kind': 'silent', 'transform': 'early_return_tree',
     'what': 'a function ending in `if c: BLOCK` becomes `if not c: return; BLOCK`'},
    {'id': 'whole-tree-sort-methods', 'kind': 'silent', 'transform': 'sort_methods_tree',
     'what': 'methods of a class are put in alphabetical order'},
    {'id': 'whole-tree-annotate-locals', 'kind': 'silent', 'transform': 'annotate_locals_tree',
     'what': "every plain local assignment gets a variable annotation (x: 'object' = v)"},
    {'id': 'whole-tree-percent-to-format', 'kind': 'silent', 'transform': 'percent_to_format_tree',
     'what': "'%s' % (...) becomes '{}'.format(...)"},
    {'id': 'whole-tree-merge-nested-if', 'kind': 'silent', 'transform': 'merge_nested_if_tree',
     'what': '`if a: if b: X` becomes `if a and b: X`'},
    {'id': 'whole-tree-ifexp-to-if', 'kind': 'silent', 'transform': 'ifexp_to_if_tree',
     'what': '`x = A if c else B` becomes an if statement'},
    {'id': 'whole-tree-swap-independent', 'kind': 'silent', 'transform': 'swap_independent_tree',
     'what': 'adjacent independent side-effect-free assignments are exchanged'},
    {'id': 'whole-tree-import-style', 'kind': 'silent', 'transform': 'import_style_tree',
     'what': '`from pkg import mod` becomes `import pkg.mod as mod`'},
    {'id': 'whole-tree-delegate', 'kind': 'silent', 'transform': 'delegate_tree',
     'what': 'every function / method body is moved into an _impl twin and the original delegates to it'},
]


def run_selftest(prop, root, jobs=None, reference_counts=None):
    """-> dict summary; raises AnalysisError when the checker is shown to be broken."""
    variants = [v for v in load_variants() if prop in v['props']]
    variants += [dict(v, props=[prop], reference_counts=reference_counts) for v in WHOLE_TREE]
    if not variants:
        return {'variants': 0, 'note': 'no variants registered for %s' % prop}
    jobs = jobs or min(16, os.cpu_count() or 4, len(variants))
    work = [(prop, root, v) for v in variants]
    if jobs > 1:
        with ProcessPoolExecutor(max_workers=jobs) as ex:
            results = list(ex.map(_run_variant, work))
    else:
        results = [_run_variant(w) for w in work]
    by_id = {v['id']: v for v in variants}
    summary = {'variants': len(variants), 'must_fire': 0, 'fired': 0, 'must_stay_silent': 0, 'silent': 0,
               'not_applicable': [], 'details': []}
    problems = []
    for vid, outcome, info, rules in results:
        v = by_id[vid]
        kind = v['kind']
        summary['details'].append({'id': vid, 'kind': kind, 'outcome': outcome, 'reported': [list(r) for r in rules],
                                   'what': v.get('what', '')})
        if outcome == 'not-applicable':
            summary['not_applicable'].append('%s: %s' % (vid, info))
            continue
        if kind == 'fire':
            summary['must_fire'] += 1
            expected = set(v.get('rules', []))
            hit = outcome == 'fired' and (not expected or any(r[0] in expected for r in rules))
            if outcome == 'analysis-error' and v.get('analysis_error_ok'):
                hit = True
            if hit:
                summary['fired'] += 1
            else:
                problems.append('must-fire variant %s (%s) was not reported [%s %s %s]'
                                % (vid, v.get('what', ''), outcome, info, rules))
        else:
            summary['must_stay_silent'] += 1
            if outcome == 'silent':
                summary['silent'] += 1
            else:
                problems.append('must-stay-silent variant %s (%s) raised an alarm [%s %s %s]'
                                % (vid, v.get('what', ''), outcome, info, rules))
    applicable = summary['must_fire'] + summary['must_stay_silent']
    if applicable < max(1, len(variants) // 2):
        problems.append('only %d of %d variants could be applied (anchors of the self-test drifted)'
                        % (applicable, len(variants)))
    summary['problems'] = problems
    if problems:
        raise AnalysisError('self-test of the checker failed: ' + '; '.join(problems[:5]))
    return summary
