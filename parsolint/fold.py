"""Constant folder for *pure string-building code*.

Recovers regex sources and small tables from module ASTs (parso's tokenize.py /
prefix.py / utils.py and CPython's Lib/tokenize.py, Lib/token.py) without
importing them: a small evaluator for the side-effect-free subset of Python
those modules use to assemble their patterns (constants, + % *, f-strings,
tuples/lists/sets/dicts, comprehensions, ``'|'.join``, ``itertools.product`` /
``permutations``, the modules' own helper functions such as ``group`` and
``maybe``).  Anything outside that subset folds to ``UNKNOWN``; branching on
UNKNOWN or calling something impure raises AnalysisError.
"""
import ast
import itertools
import re

from .model import AnalysisError


class _Unknown:
    def __repr__(self):
        return 'UNKNOWN'


UNKNOWN = _Unknown()


class Rx:
    """A compiled-pattern value: source text and flags (never compiled here)."""

    def __init__(self, source, flags=0):
        self.source = source
        self.flags = flags

    def __repr__(self):
        return 'Rx(%r, %r)' % (self.source, self.flags)


class Obj:
    """Instance of a class the folder does not model (fields by keyword / position)."""

    def __init__(self, cls, args, kwargs):
        self.cls, self.args, self.kwargs = cls, args, kwargs

    def __repr__(self):
        return 'Obj(%s)' % self.cls


class _Return(Exception):
    def __init__(self, v):
        self.v = v


class _Break(Exception):
    pass


class _Continue(Exception):
    pass


class Closure:
    def __init__(self, node, env, folder):
        self.node, self.env, self.folder = node, env, folder


_RE_FLAGS = {'UNICODE': re.UNICODE, 'U': re.UNICODE, 'ASCII': re.ASCII, 'A': re.ASCII,
             'DOTALL': re.DOTALL, 'S': re.DOTALL, 'MULTILINE': re.MULTILINE, 'M': re.MULTILINE,
             'IGNORECASE': re.IGNORECASE, 'I': re.IGNORECASE, 'VERBOSE': re.VERBOSE, 'X': re.VERBOSE}

_PURE_BUILTINS = {
    'len': len, 'set': set, 'list': list, 'tuple': tuple, 'sorted': sorted, 'str': str, 'dict': dict,
    'range': range, 'enumerate': enumerate, 'zip': zip, 'reversed': reversed, 'min': min, 'max': max,
    'frozenset': frozenset, 'bool': bool, 'int': int, 'chr': chr, 'ord': ord, 'any': any, 'all': all,
    'map': map, 'filter': filter, 'repr': repr, 'isinstance': isinstance,
}
_PURE_METHODS = {
    str: {'join', 'upper', 'lower', 'startswith', 'endswith', 'replace', 'format', 'split', 'strip',
          'lstrip', 'rstrip', 'isalpha', 'isidentifier', 'decode', 'encode', 'title', 'capitalize'},
    bytes: {'decode', 'join', 'startswith'},
    list: {'append', 'insert', 'extend', 'index', 'count', 'copy', 'sort', 'reverse', 'pop'},
    set: {'add', 'update', 'discard', 'copy', 'union'},
    frozenset: {'union', 'copy'},
    dict: {'get', 'items', 'keys', 'values', 'update', 'setdefault', 'copy'},
    tuple: {'index', 'count'},
}


class Folder:
    def __init__(self, tree, name='<module>', module_resolver=None, max_steps=2000000):
        self.tree = tree
        self.name = name
        self.resolver = module_resolver     # dotted name -> Folder (for ``from x import y``)
        self.globals = {}
        self.steps = 0
        self.max_steps = max_steps
        self._done = False

    # ------------------------------------------------------------------
    def run_module(self):
        if self._done:
            return self.globals
        self._done = True
        self.exec_block(self.tree.body, self.globals, toplevel=True)
        return self.globals

    def get(self, name):
        self.run_module()
        if name not in self.globals:
            raise AnalysisError('anchor vanished: %s has no foldable global %r' % (self.name, name))
        return self.globals[name]

    def call_function(self, name, *args, **kwargs):
        f = self.get(name)
        if not isinstance(f, Closure):
            raise AnalysisError('%s.%s is not a function' % (self.name, name))
        return self.call_closure(f, list(args), kwargs)

    def function_locals(self, name, *args, **kwargs):
        """Evaluate function ``name`` and return its local environment at return."""
        f = self.get(name)
        if not isinstance(f, Closure):
            raise AnalysisError('%s.%s is not a function' % (self.name, name))
        env = {}
        env['$result'] = self.call_closure(f, list(args), kwargs, capture=env)
        return env

    # ------------------------------------------------------------------
    def tick(self):
        self.steps += 1
        if self.steps > self.max_steps:
            raise AnalysisError('constant folder exceeded its step budget in %s' % self.name)

    def exec_block(self, stmts, env, toplevel=False):
        for st in stmts:
            self.exec_stmt(st, env, toplevel)

    def exec_stmt(self, st, env, toplevel=False):
        self.tick()
        if isinstance(st, (ast.FunctionDef, ast.AsyncFunctionDef)):
            env[st.name] = Closure(st, env, self)
        elif isinstance(st, ast.ClassDef):
            env[st.name] = ('class', st.name, st)
        elif isinstance(st, ast.Import):
            for a in st.names:
                env[a.asname or a.name.split('.')[0]] = ('module', a.name)
        elif isinstance(st, ast.ImportFrom):
            for a in st.names:
                val = UNKNOWN
                if a.name == '*':
                    if self.resolver is not None and st.level == 0:
                        other = self.resolver(st.module)
                        if other is not None:
                            other.run_module()
                            for k, v in other.globals.items():
                                if not k.startswith('_'):
                                    env.setdefault(k, v)
                    continue
                if st.module in ('itertools', 're', 'codecs') and st.level == 0:
                    val = ('modattr', st.module, a.name)
                elif self.resolver is not None and st.level == 0:
                    other = self.resolver(st.module)
                    if other is not None:
                        other.run_module()
                        val = other.globals.get(a.name, UNKNOWN)
                env[a.asname or a.name] = val
        elif isinstance(st, ast.Assign):
            v = self.ev(st.value, env)
            for t in st.targets:
                self.assign(t, v, env)
        elif isinstance(st, ast.AnnAssign):
            if st.value is not None:
                self.assign(st.target, self.ev(st.value, env), env)
        elif isinstance(st, ast.AugAssign):
            cur = self.ev(_load(st.target), env)
            v = self.ev(st.value, env)
            self.assign(st.target, self.binop(st.op, cur, v), env)
        elif isinstance(st, ast.Expr):
            if isinstance(st.value, (ast.Yield, ast.YieldFrom)):
                out = env.setdefault('$yield', [])
                if isinstance(st.value, ast.Yield):
                    out.append(self.ev(st.value.value, env) if st.value.value else None)
                else:
                    out.extend(self.iterate(self.ev(st.value.value, env)))
            else:
                self.ev(st.value, env)
        elif isinstance(st, ast.Return):
            raise _Return(self.ev(st.value, env) if st.value is not None else None)
        elif isinstance(st, ast.If):
            c = self.ev(st.test, env)
            if c is UNKNOWN:
                if toplevel:
                    return      # e.g. ``if __name__ == '__main__'`` - irrelevant for folding
                raise AnalysisError('constant folder: branch on unknown value (%s) in %s'
                                    % (ast.unparse(st.test), self.name))
            self.exec_block(st.body if c else st.orelse, env, toplevel)
        elif isinstance(st, ast.For):
            it = self.ev(st.iter, env)
            if it is UNKNOWN:
                if toplevel:
                    return
                raise AnalysisError('constant folder: loop over unknown value in %s' % self.name)
            for x in self.iterate(it):
                self.assign(st.target, x, env)
                try:
                    self.exec_block(st.body, env, toplevel)
                except _Break:
                    break
                except _Continue:
                    continue
            else:
                self.exec_block(st.orelse, env, toplevel)
        elif isinstance(st, ast.While):
            while True:
                c = self.ev(st.test, env)
                if c is UNKNOWN:
                    raise AnalysisError('constant folder: while on unknown value in %s' % self.name)
                if not c:
                    break
                try:
                    self.exec_block(st.body, env, toplevel)
                except _Break:
                    break
                except _Continue:
                    continue
        elif isinstance(st, ast.Break):
            raise _Break()
        elif isinstance(st, ast.Continue):
            raise _Continue()
        elif isinstance(st, (ast.Pass, ast.Assert, ast.Global, ast.Nonlocal, ast.Delete)):
            pass
        elif isinstance(st, ast.Try):
            # pure string building does not raise: fold the body only
            self.exec_block(st.body, env, toplevel)
            self.exec_block(st.orelse, env, toplevel)
            self.exec_block(st.finalbody, env, toplevel)
        elif isinstance(st, ast.With):
            if toplevel:
                return
            raise AnalysisError('constant folder: with-statement in folded function')
        else:
            if toplevel:
                return
            raise AnalysisError('constant folder: unsupported statement %s' % type(st).__name__)

    def assign(self, t, v, env):
        if isinstance(t, ast.Name):
            env[t.id] = v
        elif isinstance(t, (ast.Tuple, ast.List)):
            if v is UNKNOWN:
                for e in t.elts:
                    self.assign(e, UNKNOWN, env)
                return
            vals = list(self.iterate(v))
            if len(vals) != len(t.elts):
                raise AnalysisError('constant folder: unpacking mismatch')
            for e, x in zip(t.elts, vals):
                self.assign(e, x, env)
        elif isinstance(t, ast.Subscript):
            base = self.ev(t.value, env)
            key = self.ev(t.slice, env)
            if isinstance(base, (dict, list)) and key is not UNKNOWN:
                base[key] = v
        elif isinstance(t, ast.Attribute):
            pass
        else:
            raise AnalysisError('constant folder: unsupported assignment target')

    def iterate(self, v):
        if v is UNKNOWN:
            raise AnalysisError('constant folder: iteration over unknown value')
        if isinstance(v, (str, bytes, tuple, list, set, frozenset, dict, range)):
            return list(v)
        try:
            return list(v)
        except TypeError:
            raise AnalysisError('constant folder: cannot iterate %r' % (v,))

    # ------------------------------------------------------------------
    def lookup(self, name, env):
        e = env
        while e is not None:
            if name in e:
                return e[name]
            e = e.get('$parent')
        if name in self.globals:
            return self.globals[name]
        if name in _PURE_BUILTINS:
            return ('builtin', name)
        if name in ('True', 'False', 'None'):
            return {'True': True, 'False': False, 'None': None}[name]
        return UNKNOWN

    def binop(self, op, a, b):
        if a is UNKNOWN or b is UNKNOWN:
            return UNKNOWN
        try:
            if isinstance(op, ast.Add):
                return a + b
            if isinstance(op, ast.Mod):
                return a % b
            if isinstance(op, ast.Mult):
                return a * b
            if isinstance(op, ast.Sub):
                return a - b
            if isinstance(op, ast.BitOr):
                return a | b
            if isinstance(op, ast.BitAnd):
                return a & b
            if isinstance(op, ast.FloorDiv):
                return a // b
        except Exception:
            return UNKNOWN
        return UNKNOWN

    def ev(self, e, env):
        self.tick()
        if e is None:
            return None
        if isinstance(e, ast.Constant):
            return e.value
        if isinstance(e, ast.Name):
            return self.lookup(e.id, env)
        if isinstance(e, ast.JoinedStr):
            out = ''
            for v in e.values:
                if isinstance(v, ast.Constant):
                    out += v.value
                else:
                    x = self.ev(v.value, env)
                    if x is UNKNOWN or v.format_spec is not None:
                        return UNKNOWN
                    out += repr(x) if v.conversion == 114 else str(x)
            return out
        if isinstance(e, ast.BinOp):
            return self.binop(e.op, self.ev(e.left, env), self.ev(e.right, env))
        if isinstance(e, ast.UnaryOp):
            v = self.ev(e.operand, env)
            if v is UNKNOWN:
                return UNKNOWN
            if isinstance(e.op, ast.Not):
                return not v
            if isinstance(e.op, ast.USub):
                return -v
            return UNKNOWN
        if isinstance(e, ast.BoolOp):
            last = None
            for v in e.values:
                last = self.ev(v, env)
                if last is UNKNOWN:
                    return UNKNOWN
                if isinstance(e.op, ast.And) and not last:
                    return last
                if isinstance(e.op, ast.Or) and last:
                    return last
            return last
        if isinstance(e, ast.Compare):
            left = self.ev(e.left, env)
            for op, right in zip(e.ops, e.comparators):
                r = self.ev(right, env)
                if left is UNKNOWN or r is UNKNOWN:
                    return UNKNOWN
                try:
                    ok = {ast.Eq: lambda: left == r, ast.NotEq: lambda: left != r,
                          ast.Lt: lambda: left < r, ast.LtE: lambda: left <= r,
                          ast.Gt: lambda: left > r, ast.GtE: lambda: left >= r,
                          ast.In: lambda: left in r, ast.NotIn: lambda: left not in r,
                          ast.Is: lambda: left is r, ast.IsNot: lambda: left is not r}[type(op)]()
                except Exception:
                    return UNKNOWN
                if not ok:
                    return False
                left = r
            return True
        if isinstance(e, ast.IfExp):
            c = self.ev(e.test, env)
            if c is UNKNOWN:
                return UNKNOWN
            return self.ev(e.body if c else e.orelse, env)
        if isinstance(e, (ast.Tuple, ast.List, ast.Set)):
            vals = []
            for x in e.elts:
                if isinstance(x, ast.Starred):
                    v = self.ev(x.value, env)
                    if v is UNKNOWN:
                        return UNKNOWN
                    vals.extend(self.iterate(v))
                else:
                    vals.append(self.ev(x, env))
            if isinstance(e, ast.Tuple):
                return tuple(vals)
            if isinstance(e, ast.List):
                return vals
            try:
                return set(vals)
            except TypeError:
                return UNKNOWN
        if isinstance(e, ast.Dict):
            out = {}
            for k, v in zip(e.keys, e.values):
                if k is None:
                    d = self.ev(v, env)
                    if not isinstance(d, dict):
                        return UNKNOWN
                    out.update(d)
                else:
                    kk = self.ev(k, env)
                    if kk is UNKNOWN:
                        return UNKNOWN
                    try:
                        out[kk] = self.ev(v, env)
                    except TypeError:
                        return UNKNOWN
            return out
        if isinstance(e, ast.Subscript):
            base = self.ev(e.value, env)
            if base is UNKNOWN:
                return UNKNOWN
            if isinstance(e.slice, ast.Slice):
                lo = self.ev(e.slice.lower, env)
                hi = self.ev(e.slice.upper, env)
                stp = self.ev(e.slice.step, env)
                if UNKNOWN in (lo, hi, stp):
                    return UNKNOWN
                try:
                    return base[lo:hi:stp]
                except Exception:
                    return UNKNOWN
            k = self.ev(e.slice, env)
            if k is UNKNOWN:
                return UNKNOWN
            try:
                return base[k]
            except Exception:
                return UNKNOWN
        if isinstance(e, ast.Attribute):
            base = self.ev(e.value, env)
            if isinstance(base, tuple) and base and base[0] == 'module':
                return ('modattr', base[1], e.attr)
            if base is UNKNOWN:
                return UNKNOWN
            return ('boundattr', base, e.attr)
        if isinstance(e, (ast.ListComp, ast.SetComp, ast.GeneratorExp, ast.DictComp)):
            return self.comprehension(e, env)
        if isinstance(e, ast.Call):
            return self.call(e, env)
        if isinstance(e, ast.Lambda):
            return UNKNOWN
        if isinstance(e, ast.Starred):
            return self.ev(e.value, env)
        return UNKNOWN

    def comprehension(self, e, env):
        results = []
        local = {'$parent': env}

        def rec(i):
            if i == len(e.generators):
                if isinstance(e, ast.DictComp):
                    results.append((self.ev(e.key, local), self.ev(e.value, local)))
                else:
                    results.append(self.ev(e.elt, local))
                return
            g = e.generators[i]
            it = self.ev(g.iter, local)
            if it is UNKNOWN:
                raise _UnknownComp()
            for x in self.iterate(it):
                self.assign(g.target, x, local)
                ok = True
                for cond in g.ifs:
                    c = self.ev(cond, local)
                    if c is UNKNOWN:
                        raise _UnknownComp()
                    if not c:
                        ok = False
                        break
                if ok:
                    rec(i + 1)
        try:
            rec(0)
        except _UnknownComp:
            return UNKNOWN
        if isinstance(e, ast.DictComp):
            return dict(results)
        if isinstance(e, ast.SetComp):
            return set(results)
        return results

    def call(self, e, env):
        f = self.ev(e.func, env)
        args = []
        for a in e.args:
            if isinstance(a, ast.Starred):
                v = self.ev(a.value, env)
                if v is UNKNOWN:
                    return UNKNOWN
                args.extend(self.iterate(v))
            else:
                args.append(self.ev(a, env))
        kwargs = {}
        for k in e.keywords:
            if k.arg is None:
                d = self.ev(k.value, env)
                if not isinstance(d, dict):
                    return UNKNOWN
                kwargs.update(d)
            else:
                kwargs[k.arg] = self.ev(k.value, env)
        if isinstance(f, Closure):
            return f.folder.call_closure(f, args, kwargs)
        if isinstance(f, tuple) and f:
            if f[0] == 'builtin':
                if f[1] == 'map' and len(args) == 2 and args[0] == ('modattr', 're', 'escape') \
                        and args[1] is not UNKNOWN:
                    return [re.escape(x) for x in self.iterate(args[1])]
                if f[1] == 'map' and len(args) == 2 and args[1] is not UNKNOWN and not kwargs \
                        and (isinstance(args[0], Closure) or (isinstance(args[0], tuple) and args[0]
                                                              and args[0][0] in ('modattr', 'boundattr', 'builtin'))):
                    # map(f, iterable) with a function value the folder can apply itself
                    fn = args[0]
                    out = []
                    for x in self.iterate(args[1]):
                        if isinstance(fn, Closure):
                            r = fn.folder.call_closure(fn, [x], {})
                        elif fn[0] == 'modattr':
                            r = self.call_module_attr(fn[1], fn[2], [x], {})
                        elif fn[0] == 'boundattr':
                            r = self.call_method(fn[1], fn[2], [x], {})
                        else:
                            try:
                                r = _PURE_BUILTINS[fn[1]](x)
                            except Exception:
                                r = UNKNOWN
                        if r is UNKNOWN:
                            return UNKNOWN
                        out.append(r)
                    return out
                if any(a is UNKNOWN for a in args) or any(v is UNKNOWN for v in kwargs.values()):
                    return UNKNOWN
                try:
                    r = _PURE_BUILTINS[f[1]](*args, **kwargs)
                    if f[1] in ('enumerate', 'zip', 'reversed', 'map', 'filter', 'range'):
                        r = list(r)
                    return r
                except Exception:
                    return UNKNOWN
            if f[0] == 'modattr':
                return self.call_module_attr(f[1], f[2], args, kwargs)
            if f[0] == 'boundattr':
                return self.call_method(f[1], f[2], args, kwargs)
            if f[0] == 'class':
                return Obj(f[1], args, kwargs)
        return UNKNOWN

    def call_module_attr(self, mod, attr, args, kwargs):
        if any(a is UNKNOWN for a in args):
            return UNKNOWN
        if mod in ('itertools', '_itertools'):
            fn = {'product': itertools.product, 'permutations': itertools.permutations,
                  'chain': itertools.chain, 'combinations': itertools.combinations}.get(attr)
            if fn is None:
                return UNKNOWN
            return list(fn(*args, **kwargs))
        if mod == 're':
            if attr == 'compile':
                flags = args[1] if len(args) > 1 else kwargs.get('flags', 0)
                if isinstance(flags, tuple) and flags and flags[0] == 'modattr':
                    flags = _RE_FLAGS.get(flags[2], 0)
                return Rx(args[0], flags if isinstance(flags, int) else 0)
            if attr == 'escape':
                return re.escape(args[0])
            return UNKNOWN
        return UNKNOWN

    def call_method(self, base, attr, args, kwargs):
        if isinstance(base, tuple) and base and base[0] == 'modattr':
            # e.g. BOM_UTF8.decode('utf-8') where BOM_UTF8 comes from codecs
            if base[1] == 'codecs' and base[2] == 'BOM_UTF8':
                base = b'\xef\xbb\xbf'
            else:
                return UNKNOWN
        for typ, names in _PURE_METHODS.items():
            if isinstance(base, typ) and attr in names:
                if any(a is UNKNOWN for a in args):
                    # a mutation with an argument the folder could not evaluate: the container is no longer known -
                    # poison it, so that whoever consumes it sees the hole instead of a silently incomplete value
                    try:
                        if attr in ('append', 'insert', 'extend'):
                            base.append(UNKNOWN)
                        elif attr in ('add', 'update') and isinstance(base, set):
                            base.add(UNKNOWN)
                        elif attr in ('update', 'setdefault') and isinstance(base, dict):
                            base[UNKNOWN] = UNKNOWN
                    except Exception:
                        pass
                    return UNKNOWN
                try:
                    r = getattr(base, attr)(*args, **kwargs)
                except Exception:
                    return UNKNOWN
                if attr in ('items', 'keys', 'values'):
                    r = list(r)
                return r
        return UNKNOWN

    def call_closure(self, f, args, kwargs, capture=None):
        node = f.node
        a = node.args
        env = {'$parent': f.env if f.env is not self.globals else None}
        pos = [x.arg for x in a.posonlyargs + a.args]
        defaults = dict(zip(reversed(pos), reversed(a.defaults)))
        for i, p in enumerate(pos):
            if i < len(args):
                env[p] = args[i]
            elif p in kwargs:
                env[p] = kwargs.pop(p)
            elif p in defaults:
                env[p] = self.ev(defaults[p], f.env)
            else:
                env[p] = UNKNOWN
        if a.vararg:
            env[a.vararg.arg] = tuple(args[len(pos):])
        for k, d in zip(a.kwonlyargs, a.kw_defaults):
            if k.arg in kwargs:
                env[k.arg] = kwargs.pop(k.arg)
            elif d is not None:
                env[k.arg] = self.ev(d, f.env)
            else:
                env[k.arg] = UNKNOWN
        if a.kwarg:
            env[a.kwarg.arg] = dict(kwargs)
        result = None
        try:
            self.exec_block(node.body, env)
        except _Return as r:
            result = r.v
        if capture is not None:
            capture.update({k: v for k, v in env.items() if not k.startswith('$')})
        if '$yield' in env or _is_generator(node):
            return list(env.get('$yield', []))
        return result


class _UnknownComp(Exception):
    pass


def _is_generator(node):
    stack = list(node.body)
    while stack:
        n = stack.pop()
        if isinstance(n, (ast.Yield, ast.YieldFrom)):
            return True
        if isinstance(n, (ast.FunctionDef, ast.AsyncFunctionDef, ast.Lambda, ast.ClassDef)):
            continue
        stack.extend(ast.iter_child_nodes(n))
    return False


def _load(t):
    if isinstance(t, ast.Name):
        return ast.Name(id=t.id, ctx=ast.Load())
    return t


def fold_file(path, resolver=None):
    with open(path, encoding='utf-8') as f:
        src = f.read()
    try:
        tree = ast.parse(src, filename=path)
    except SyntaxError as e:
        raise AnalysisError('cannot parse %s: %s' % (path, e))
    # spell out look-up-binding aliases (join = ''.join; product = itertools.product) before evaluating
    try:
        from .canon import _inline_callable_aliases, _PlainAssign
        _PlainAssign().visit(tree)
        _inline_callable_aliases(tree)
    except Exception:
        pass
    return Folder(tree, path, resolver)
