"""E7 helpers: path-sensitive search on a CFG (truthiness facts of plain local names)."""
import ast

from .da import const_truth, _targets


class FactFlow:
    """Propagates facts {(name, truthy)} along CFG edges; used to discard infeasible paths
    such as `if m: ... else: ...` followed later by `if not m:`."""

    def __init__(self, cfg, prune=False):
        self.cfg = cfg
        self.prune = prune          # drop facts about names that are not tested again before they are re-bound
        self._live = None
        self.fact_vars = set()
        for n in cfg.nodes:
            if n.kind == 'test':
                e = n.ast
                if isinstance(e, ast.Name):
                    self.fact_vars.add(e.id)
                elif isinstance(e, ast.Compare) and len(e.ops) == 1 and isinstance(e.left, ast.Name) \
                        and isinstance(e.ops[0], (ast.Is, ast.IsNot)) \
                        and isinstance(e.comparators[0], ast.Constant) and e.comparators[0].value is None:
                    self.fact_vars.add(e.left.id)

    def _kill(self, facts, names):
        return frozenset(f for f in facts if f[0].split('#')[0] not in names)

    def refine(self, facts, expr, polarity):
        if isinstance(expr, ast.Name) and expr.id in self.fact_vars:
            if (expr.id, not polarity) in facts:
                return None
            if polarity and (expr.id + '#isnone', True) in facts:
                return None
            out = facts | {(expr.id, polarity)}
            if polarity:
                out = out | {(expr.id + '#isnone', False)}     # a truthy value is not None
            return out
        if isinstance(expr, ast.Compare) and len(expr.ops) == 1 and isinstance(expr.left, ast.Name) \
                and expr.left.id in self.fact_vars and isinstance(expr.ops[0], (ast.Is, ast.IsNot)) \
                and isinstance(expr.comparators[0], ast.Constant) and expr.comparators[0].value is None:
            is_none = isinstance(expr.ops[0], ast.Is) == polarity
            key = expr.left.id + '#isnone'
            if (key, not is_none) in facts:
                return None
            if is_none:
                if (expr.left.id, True) in facts:
                    return None
                return facts | {(expr.left.id, False), (key, True)}
            return facts | {(key, False)}
        return facts

    GROWS = ('append', 'add', 'insert', 'appendleft')
    MUTATES = GROWS + ('pop', 'popleft', 'remove', 'clear', 'extend', 'update', 'discard', 'popitem', 'setdefault',
                       'sort', 'reverse', 'difference_update', 'intersection_update')

    def out_facts(self, node, facts):
        """facts after executing ``node``: assignments, then mutation of a container through one of its methods (a list
        that was empty when it was created is not known to be empty after ``x.append(..)``)."""
        facts = self._out_facts0(node, facts)
        a = node.ast
        if a is None or node.kind not in ('stmt',) or isinstance(a, (ast.FunctionDef, ast.AsyncFunctionDef, ast.ClassDef)):
            return facts
        for n in ast.walk(a):
            if isinstance(n, ast.Call) and isinstance(n.func, ast.Attribute) and isinstance(n.func.value, ast.Name) \
                    and n.func.attr in self.MUTATES and n.func.value.id in self.fact_vars:
                name = n.func.value.id
                facts = self._kill(facts, {name})
                if n.func.attr in self.GROWS:
                    facts = facts | {(name, True), (name + '#isnone', False)}
            elif isinstance(n, ast.Delete):
                for t in n.targets:
                    if isinstance(t, ast.Subscript) and isinstance(t.value, ast.Name) and t.value.id in self.fact_vars:
                        facts = self._kill(facts, {t.value.id})
        return facts

    def _out_facts0(self, node, facts):
        """facts after executing ``node`` (for non-test nodes)."""
        a = node.ast
        if node.kind in ('next0', 'next'):
            names = set()
            _targets(a, names)
            return self._kill(facts, names)
        if node.kind == 'with':
            names = set()
            for item in a.items:
                if item.optional_vars is not None:
                    _targets(item.optional_vars, names)
            return self._kill(facts, names)
        if node.kind == 'handler':
            return self._kill(facts, {a.name}) if a.name else facts
        if node.kind == 'case':
            names = {sub.name for sub in ast.walk(a.pattern) if isinstance(sub, (ast.MatchAs, ast.MatchStar)) and sub.name}
            return self._kill(facts, names)
        if node.kind != 'stmt' or a is None:
            return facts
        if isinstance(a, ast.Assign):
            names = set()
            for t in a.targets:
                _targets(t, names)
            keep = None
            if len(a.targets) == 1 and isinstance(a.targets[0], ast.Name) and isinstance(a.value, ast.BinOp) \
                    and isinstance(a.value.op, ast.Add) and isinstance(a.value.left, ast.Name) \
                    and a.value.left.id == a.targets[0].id and (a.targets[0].id, True) in facts:
                keep = (a.targets[0].id, True)          # x = x + y keeps a non-empty x non-empty
            facts = self._kill(facts, names)
            if keep:
                facts = facts | {keep}
            if len(a.targets) == 1 and isinstance(a.targets[0], ast.Name) and a.targets[0].id in self.fact_vars:
                t = const_truth(a.value, mutable_ok=True)     # method calls on the name are tracked in out_facts
                if t is not None:
                    facts = facts | {(a.targets[0].id, t)}
                if isinstance(a.value, ast.Constant):
                    facts = facts | {(a.targets[0].id + '#isnone', a.value.value is None)}
            return facts
        if isinstance(a, (ast.AugAssign, ast.AnnAssign)):
            names = set()
            _targets(a.target, names)
            keep = None
            if isinstance(a, ast.AugAssign) and isinstance(a.op, ast.Add) and isinstance(a.target, ast.Name) \
                    and (a.target.id, True) in facts:
                keep = (a.target.id, True)              # x += y keeps a non-empty x non-empty
            facts = self._kill(facts, names)
            return facts | {keep} if keep else facts
        if isinstance(a, (ast.FunctionDef, ast.AsyncFunctionDef, ast.ClassDef)):
            return self._kill(facts, {a.name})
        if isinstance(a, ast.Delete):
            return self._kill(facts, {t.id for t in a.targets if isinstance(t, ast.Name)})
        # walrus anywhere
        names = {n.target.id for n in ast.walk(a) if isinstance(n, ast.NamedExpr) and isinstance(n.target, ast.Name)}
        return self._kill(facts, names) if names else facts

    def _tested_name(self, node):
        e = node.ast
        if node.kind != 'test':
            return None
        if isinstance(e, ast.Name):
            return e.id
        if isinstance(e, ast.Compare) and len(e.ops) == 1 and isinstance(e.left, ast.Name) \
                and isinstance(e.ops[0], (ast.Is, ast.IsNot)) \
                and isinstance(e.comparators[0], ast.Constant) and e.comparators[0].value is None:
            return e.left.id
        return None

    def live(self):
        """node -> names whose facts can still decide a test on some way onwards (backward liveness: a test of the
        name is a use, anything that changes its facts a definition).  Facts about other names cannot prune a path."""
        if self._live is not None:
            return self._live
        probe = frozenset((v + '#probe', True) for v in self.fact_vars)
        kill, gen = {}, {}
        for n in self.cfg.nodes:
            if n.kind == 'test':
                kill[n] = set()
            else:
                left = {x[0].split('#')[0] for x in self.out_facts(n, probe) if x[0].endswith('#probe')}
                kill[n] = self.fact_vars - left
            t = self._tested_name(n)
            gen[n] = {t} if t in self.fact_vars else set()
            if n.kind != 'test':
                # a transfer function that looks at the incoming fact (x = x + y keeps a non-empty x non-empty) uses it
                for v in kill[n]:
                    if (v, True) in self.out_facts(n, frozenset({(v, True)})) and (v, True) not in self.out_facts(n, frozenset()):
                        gen[n].add(v)
        live_in = {n: set(gen[n]) for n in self.cfg.nodes}
        changed = True
        while changed:
            changed = False
            for n in reversed(self.cfg.nodes):
                out = set()
                for s, lab in n.succ:
                    out |= live_in[s]
                new = gen[n] | (out - kill[n])
                if new != live_in[n]:
                    live_in[n] = new
                    changed = True
        self._live = live_in
        return live_in

    def successors(self, node, facts, follow_exc=False):
        """-> [(succ, label, facts')] over feasible edges."""
        out = self._successors(node, facts, follow_exc)
        if self.prune:
            live = self.live()
            out = [(s, lab, frozenset(x for x in f2 if x[0].split('#')[0] in live[s])) for s, lab, f2 in out]
        return out

    def _successors(self, node, facts, follow_exc=False):
        out = []
        if node.kind == 'test':
            for s, lab in node.succ:
                if lab == 'exc':
                    if follow_exc:
                        out.append((s, lab, facts))
                    continue
                f2 = self.refine(facts, node.ast, lab == 'T')
                if f2 is not None:
                    out.append((s, lab, f2))
            return out
        f_out = self.out_facts(node, facts)
        for s, lab in node.succ:
            if lab == 'exc':
                if follow_exc:
                    out.append((s, lab, facts))
                continue
            out.append((s, lab, f_out))
        return out


def find_path(cfg, starts, is_goal, is_blocked, follow_exc=False, init_facts=frozenset(), flow=None):
    """Feasible path from any start node to a goal node that does not pass *through* a blocked
    node.  Returns the list of CFG nodes of the path, or None."""
    flow = flow or FactFlow(cfg)
    seen = set()
    prev = {}
    todo = [(s, init_facts) for s in starts]
    for st in todo:
        prev[st] = None
    while todo:
        state = todo.pop(0)
        if state in seen:
            continue
        seen.add(state)
        node, facts = state
        if is_goal(node):
            path = []
            k = state
            while k is not None:
                path.append(k[0])
                k = prev[k]
            return list(reversed(path))
        if is_blocked(node):
            continue
        for s, lab, f2 in flow.successors(node, facts, follow_exc):
            nxt = (s, f2)
            if nxt not in seen and nxt not in prev:
                prev[nxt] = state
                todo.append(nxt)
    return None


def path_text(path, limit=8):
    from .model import head
    out = []
    for n in path:
        if n.stmt is not None:
            h = head(n.stmt) if n.kind != 'test' else 'test %s' % ast.unparse(n.ast)[:80]
            if not out or out[-1] != h:
                out.append(h)
    return out[-limit:]



def only_via_feasible(cfg, target, test_pred, label, flow=None):
    """Like par.only_via, but over feasible paths only (truthiness / is-None facts of locals): True when every feasible
    way from the entry to ``target`` takes a ``label`` edge of a test node satisfying ``test_pred``."""
    flow = flow or FactFlow(cfg)
    tests = {n for n in cfg.nodes if n.kind == 'test' and test_pred(n.ast)}
    if not tests:
        return False
    start = (cfg.entry, frozenset())
    seen = {start}
    todo = [start]
    while todo:
        node, facts = todo.pop()
        if node is target:
            return False
        for s, lab, f2 in flow.successors(node, facts):
            if node in tests and lab == label:
                continue                # a way through the required edge is fine: do not follow it
            nxt = (s, f2)
            if nxt not in seen:
                seen.add(nxt)
                todo.append(nxt)
    return True


def facts_on_arrival(cfg, flow, target):
    """Facts that hold on every feasible way from the entry to ``target`` (intersection over the explored states)."""
    seen = set()
    todo = [(cfg.entry, frozenset())]
    at = None
    while todo:
        state = todo.pop()
        if state in seen:
            continue
        seen.add(state)
        node, facts = state
        if node is target:
            at = facts if at is None else (at & facts)
        for s, lab, f2 in flow.successors(node, facts):
            todo.append((s, f2))
    return at or frozenset()
