"""E4 - grammar engine: own reader for the pgen dialect, DFA per rule,
nullable / FIRST / FOLLOW, conflicts, reachability, rule-language operations.

Independent of parso/pgen2: nothing from the repository is imported.
"""
import collections
import glob
import itertools
import os
import re

from .model import AnalysisError

_NAME = re.compile(r"[A-Za-z_][A-Za-z_0-9]*")


def lex(text, path='<grammar>'):
    toks = []
    depth = 0
    i = 0
    line = 1
    while i < len(text):
        c = text[i]
        if c in ' \t\r\f':
            i += 1
            continue
        if c == '#':
            while i < len(text) and text[i] != '\n':
                i += 1
            continue
        if c == '\n':
            if depth == 0 and toks and toks[-1][0] != 'NL':
                toks.append(('NL', '\n', line))
            i += 1
            line += 1
            continue
        m = _NAME.match(text, i)
        if m:
            toks.append(('NAME', m.group(), line))
            i = m.end()
            continue
        if c in '\'"':
            j = text.find(c, i + 1)
            if j < 0 or '\n' in text[i:j]:
                raise AnalysisError('%s:%d: unterminated string in grammar' % (path, line))
            toks.append(('STR', text[i + 1:j], line))
            i = j + 1
            continue
        if c in '([':
            depth += 1
        if c in ')]':
            depth -= 1
        if c in '()[]|*+:':
            toks.append(('OP', c, line))
            i += 1
            continue
        raise AnalysisError('%s:%d: unsupported character %r in grammar' % (path, line, c))
    if toks and toks[-1][0] != 'NL':
        toks.append(('NL', '\n', line))
    toks.append(('END', '', line))
    return toks


class _P:
    def __init__(self, toks, path):
        self.t = toks
        self.i = 0
        self.path = path

    def peek(self):
        return self.t[self.i][:2]

    def next(self):
        x = self.t[self.i]
        self.i += 1
        return x[:2]

    def fail(self, msg):
        raise AnalysisError('%s:%d: %s' % (self.path, self.t[min(self.i, len(self.t) - 1)][2], msg))

    def expect(self, tok):
        if self.peek() != tok:
            self.fail('expected %r, got %r' % (tok, self.peek()))
        return self.next()

    def rules(self):
        out = collections.OrderedDict()
        while self.peek()[0] != 'END':
            if self.peek()[0] == 'NL':
                self.next()
                continue
            k, name = self.next()
            if k != 'NAME':
                self.fail('rule name expected, got %r' % name)
            self.expect(('OP', ':'))
            if name in out:
                self.fail('duplicate rule %s' % name)
            out[name] = self.rhs()
            if self.peek()[0] != 'NL':
                self.fail('end of rule expected, got %r' % (self.peek(),))
            self.next()
        return out

    def rhs(self):
        alts = [self.items()]
        while self.peek() == ('OP', '|'):
            self.next()
            alts.append(self.items())
        return ('alt', alts) if len(alts) > 1 else alts[0]

    def items(self):
        seq = [self.item()]
        while self.peek()[0] in ('NAME', 'STR') or self.peek() in (('OP', '('), ('OP', '[')):
            seq.append(self.item())
        return ('seq', seq) if len(seq) > 1 else seq[0]

    def item(self):
        if self.peek() == ('OP', '['):
            self.next()
            r = self.rhs()
            self.expect(('OP', ']'))
            return ('opt', r)
        a = self.atom()
        if self.peek() == ('OP', '*'):
            self.next()
            return ('star', a)
        if self.peek() == ('OP', '+'):
            self.next()
            return ('plus', a)
        return a

    def atom(self):
        k, v = self.next()
        if (k, v) == ('OP', '('):
            r = self.rhs()
            self.expect(('OP', ')'))
            return r
        if k == 'NAME':
            return ('sym', v)
        if k == 'STR':
            return ('sym', repr(v))
        self.fail('unexpected %r' % (v,))


class DFA:
    """Minimal DFA of one rule: start, arcs {state: {label: state}}, finals."""
    __slots__ = ('start', 'arcs', 'finals')

    def __init__(self, start, arcs, finals):
        self.start, self.arcs, self.finals = start, arcs, finals

    def labels(self):
        out = set()
        for a in self.arcs.values():
            out |= set(a)
        return out

    def words(self, maxlen, limit=20000):
        """All accepted words of length <= maxlen (lists of labels)."""
        out = []
        frontier = [((), self.start)]
        for L in range(maxlen + 1):
            nxt = []
            for w, st in frontier:
                if st in self.finals:
                    out.append(w)
                if L < maxlen:
                    for lab in sorted(self.arcs[st]):
                        nxt.append((w + (lab,), self.arcs[st][lab]))
            frontier = nxt
            if len(frontier) > limit:
                raise AnalysisError('word enumeration exploded')
        return out

    def accepts(self, word):
        st = self.start
        for lab in word:
            st = self.arcs[st].get(lab)
            if st is None:
                return False
        return st in self.finals


def build_dfa(expr):
    trans = collections.defaultdict(list)
    eps = collections.defaultdict(list)
    cnt = itertools.count()

    def go(e):
        k = e[0]
        if k == 'sym':
            a, z = next(cnt), next(cnt)
            trans[a].append((e[1], z))
            return a, z
        if k == 'seq':
            a, z = go(e[1][0])
            for x in e[1][1:]:
                b, y = go(x)
                eps[z].append(b)
                z = y
            return a, z
        if k == 'alt':
            a, z = next(cnt), next(cnt)
            for x in e[1]:
                b, y = go(x)
                eps[a].append(b)
                eps[y].append(z)
            return a, z
        if k == 'opt':
            b, y = go(e[1])
            a, z = next(cnt), next(cnt)
            eps[a] += [b, z]
            eps[y].append(z)
            return a, z
        if k == 'plus':
            b, y = go(e[1])
            a, z = next(cnt), next(cnt)
            eps[a].append(b)
            eps[y] += [b, z]
            return a, z
        if k == 'star':
            b, y = go(e[1])
            a, z = next(cnt), next(cnt)
            eps[a] += [b, z]
            eps[y] += [b, z]
            return a, z
        raise ValueError(k)

    s, f = go(expr)

    def clo(S):
        S = set(S)
        st = list(S)
        while st:
            x = st.pop()
            for y in eps[x]:
                if y not in S:
                    S.add(y)
                    st.append(y)
        return frozenset(S)

    start = clo([s])
    states = {start: 0}
    order = [start]
    arcs = {}
    for S in order:
        d = collections.defaultdict(set)
        for x in S:
            for lab, y in trans[x]:
                d[lab].add(y)
        arcs[states[S]] = {}
        for lab, T in d.items():
            T = clo(T)
            if T not in states:
                states[T] = len(states)
                order.append(T)
            arcs[states[S]][lab] = states[T]
    final = {states[S] for S in order if f in S}
    # partition refinement
    part = {i: (i in final) for i in arcs}
    while True:
        sig = {i: (part[i], tuple(sorted((l, part[t]) for l, t in arcs[i].items()))) for i in arcs}
        ids = {}
        newpart = {i: ids.setdefault(sig[i], len(ids)) for i in sorted(arcs)}
        same = len(set(newpart.values())) == len(set(part.values()))
        part = newpart
        if same:
            break
    n_arcs = {}
    n_final = set()
    for i in arcs:
        n_arcs.setdefault(part[i], {l: part[t] for l, t in arcs[i].items()})
        if i in final:
            n_final.add(part[i])
    return DFA(part[0], n_arcs, n_final)


class Grammar:
    START_SYMBOLS = ('file_input', 'eval_input', 'single_input')

    def __init__(self, path):
        self.path = path
        self.name = os.path.basename(path)
        m = re.match(r'grammar(\d)(\d+)\.txt$', self.name)
        if not m:
            raise AnalysisError('unexpected grammar file name %s' % self.name)
        self.version = (int(m.group(1)), int(m.group(2)))
        with open(path, encoding='utf-8') as f:
            self.text = f.read()
        self.rules = _P(lex(self.text, self.name), self.name).rules()
        if not self.rules:
            raise AnalysisError('%s: no rules' % self.name)
        self.nts = set(self.rules)
        self.dfas = {n: build_dfa(e) for n, e in self.rules.items()}
        self.first_rule = next(iter(self.rules))
        self._first = {}
        self._analysed = False

    # terminals ------------------------------------------------------------
    def symbols(self):
        out = set()
        for d in self.dfas.values():
            out |= d.labels()
        return out

    def terminals(self):
        return {s for s in self.symbols() if s not in self.nts}

    def undefined(self):
        """NAME-like symbols that are neither rules nor upper-case token names."""
        return {s for s in self.terminals() if not s.startswith(("'", '"')) and not s.isupper()}

    def named_tokens(self):
        return {s for s in self.terminals() if not s.startswith(("'", '"'))}

    def literal_terminals(self):
        return {eval(s) for s in self.terminals() if s.startswith(("'", '"'))}

    # FIRST --------------------------------------------------------------
    def first(self, n, stack=()):
        """{terminal: [first-step labels]}; raises on left recursion."""
        if n in self._first:
            return self._first[n]
        if n in stack:
            raise LeftRecursion(list(stack[stack.index(n):]) + [n])
        d = self.dfas[n]
        res = {}
        for lab in d.arcs[d.start]:
            if lab in self.nts:
                for t in self.first(lab, stack + (n,)):
                    res.setdefault(t, []).append(lab)
            else:
                res.setdefault(lab, []).append(lab)
        self._first[n] = res
        return res

    def first_of_state(self, n, st):
        r = set()
        for lab in self.dfas[n].arcs[st]:
            r |= set(self.first(lab)) if lab in self.nts else {lab}
        return r

    def nullable(self):
        return {n for n, d in self.dfas.items() if d.start in d.finals}

    def analyse(self):
        """-> dict with left_recursion, first_first, first_follow, nullable, unreachable."""
        res = {'left_recursion': [], 'first_first': [], 'first_follow': [], 'undefined': sorted(self.undefined())}
        res['nullable'] = sorted(self.nullable())
        if res['undefined']:
            return res
        for n in self.nts:
            try:
                self.first(n)
            except LeftRecursion as e:
                res['left_recursion'].append(e.cycle)
        if res['left_recursion']:
            return res
        for n, d in self.dfas.items():
            for st, out in d.arcs.items():
                seen = {}
                for lab in sorted(out):
                    toks = self.first(lab) if lab in self.nts else {lab: 1}
                    for t in toks:
                        if t in seen:
                            res['first_first'].append((n, st, t, seen[t], lab))
                        seen[t] = lab
        follow = {n: set() for n in self.nts}
        for s in self.START_SYMBOLS:
            if s in follow:
                follow[s].add('$')
        changed = True
        while changed:
            changed = False
            for n, d in self.dfas.items():
                for st, out in d.arcs.items():
                    for lab, tgt in out.items():
                        if lab in self.nts:
                            add = self.first_of_state(n, tgt)
                            if tgt in d.finals:
                                add = add | follow[n]
                            if not add <= follow[lab]:
                                follow[lab] |= add
                                changed = True
        self.follow = follow
        for n, d in self.dfas.items():
            for st in d.finals:
                c = self.first_of_state(n, st) & follow[n]
                if c:
                    res['first_follow'].append((n, st, sorted(c)))
        res['states'] = sum(len(d.arcs) for d in self.dfas.values())
        res['unreachable'] = sorted(self.nts - self.reachable('file_input')) if 'file_input' in self.nts else []
        self._analysed = True
        return res

    def reachable(self, start):
        reach = set()
        todo = [start]
        while todo:
            n = todo.pop()
            if n in reach:
                continue
            reach.add(n)
            for lab in self.dfas[n].labels():
                if lab in self.nts:
                    todo.append(lab)
        return reach


class LeftRecursion(Exception):
    def __init__(self, cycle):
        Exception.__init__(self, 'left recursion: ' + ' -> '.join(cycle))
        self.cycle = cycle


def load_all(root):
    paths = sorted(glob.glob(os.path.join(root, 'parso', 'python', 'grammar3*.txt')),
                   key=lambda p: int(re.search(r'grammar3(\d+)', p).group(1)))
    if len(paths) < 2:
        raise AnalysisError('fewer than two grammar files under %s/parso/python' % root)
    return [Grammar(p) for p in paths]


# -- language operations on rule DFAs (alphabet = grammar symbols) -----------------
def included(A, B):
    """L(A) subseteq L(B)?  -> None or a witness word (list of labels)."""
    DEAD = -1
    start = (A.start, B.start)
    seen = {start: None}
    q = collections.deque([start])
    while q:
        cur = q.popleft()
        x, y = cur
        if x in A.finals and (y == DEAD or y not in B.finals):
            return _word(seen, cur)
        for lab in sorted(A.arcs[x]):
            t = A.arcs[x][lab]
            u = B.arcs[y].get(lab, DEAD) if y != DEAD else DEAD
            n = (t, u)
            if n not in seen:
                seen[n] = (cur, lab)
                q.append(n)
    return None


def inter_included(A, C, B):
    """L(A) & L(C) subseteq L(B)? -> None or witness."""
    DEAD = -1
    start = (A.start, C.start, B.start)
    seen = {start: None}
    q = collections.deque([start])
    while q:
        cur = q.popleft()
        x, z, y = cur
        if x in A.finals and z in C.finals and (y == DEAD or y not in B.finals):
            return _word(seen, cur)
        for lab in sorted(A.arcs[x]):
            if lab not in C.arcs[z]:
                continue
            u = B.arcs[y].get(lab, DEAD) if y != DEAD else DEAD
            n = (A.arcs[x][lab], C.arcs[z][lab], u)
            if n not in seen:
                seen[n] = (cur, lab)
                q.append(n)
    return None


def _word(seen, k):
    w = []
    while seen[k]:
        k, s = seen[k]
        w.append(s)
    return list(reversed(w))


# ---------------------------------------------------------------------------
# thorough tier: cross-check of the DFA construction against a direct interpretation of the EBNF tree
# ---------------------------------------------------------------------------
def ebnf_match(expr, word, i=0):
    """Set of positions j such that ``expr`` derives word[i:j] (direct recursive interpretation)."""
    k = expr[0]
    if k == 'sym':
        return {i + 1} if i < len(word) and word[i] == expr[1] else set()
    if k == 'seq':
        pos = {i}
        for x in expr[1]:
            nxt = set()
            for p in pos:
                nxt |= ebnf_match(x, word, p)
            pos = nxt
            if not pos:
                break
        return pos
    if k == 'alt':
        out = set()
        for x in expr[1]:
            out |= ebnf_match(x, word, i)
        return out
    if k == 'opt':
        return {i} | ebnf_match(expr[1], word, i)
    if k in ('star', 'plus'):
        out = {i} if k == 'star' else set()
        frontier = {i}
        seen = set()
        while frontier:
            nxt = set()
            for p in frontier:
                for q in ebnf_match(expr[1], word, p):
                    if q not in seen and q > p:
                        seen.add(q)
                        nxt.add(q)
                    elif q == p and k == 'plus':
                        out.add(q)
            out |= nxt
            frontier = nxt
        return out
    raise ValueError(k)


def crosscheck_dfas(grammars, seed=0, maxlen=3, samples=40):
    import random
    rnd = random.Random(seed)
    n_words = 0
    n_rules = 0
    for g in grammars:
        for name, expr in g.rules.items():
            d = g.dfas[name]
            labels = sorted(d.labels())
            n_rules += 1
            words = [()]
            frontier = [()]
            L = maxlen if len(labels) <= 6 else 2
            for _ in range(L):
                frontier = [w + (a,) for w in frontier for a in labels]
                words += frontier
                if len(words) > 600:
                    break
            # random walks through the DFA (accepted and near-miss words)
            for _ in range(samples):
                st = d.start
                w = []
                for _ in range(rnd.randint(1, 9)):
                    arcs = d.arcs[st]
                    if not arcs or rnd.random() < 0.1:
                        break
                    lab = rnd.choice(sorted(arcs))
                    w.append(lab)
                    st = arcs[lab]
                words.append(tuple(w))
                if w and rnd.random() < 0.5:
                    w2 = list(w)
                    w2[rnd.randrange(len(w2))] = rnd.choice(labels)
                    words.append(tuple(w2))
            for w in words:
                n_words += 1
                want = len(w) in ebnf_match(expr, w)
                got = d.accepts(w)
                if want != got:
                    raise AnalysisError('grammar engine cross-check failed: %s rule %s, word %s: EBNF says %s, DFA says %s'
                                        % (g.name, name, ' '.join(w), want, got))
    return {'rules': n_rules, 'words': n_words}
