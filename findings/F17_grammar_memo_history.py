"""F17 (fixed in 5337c30): the loaded-grammar memo was keyed by the grammar path only.

Run with /venv/bin/python against a tree *without* the fix: the second history lists an issue the first does not.
"""
import parso
import parso.grammar as g

P = 'python/grammar312.txt'
CODE = 'def f():\n    for x in y:\n        try:\n            pass\n        finally:\n            continue\n'


def run(order):
    g._loaded_grammars.clear()
    for v in order:
        gr = parso.load_grammar(version=v, path=P)
    m = gr.parse(CODE)
    return tuple(gr.version_info), [(e.code, e.message, e.start_pos) for e in gr.iter_errors(m)]


a = run(['3.12'])
b = run(['3.6', '3.12'])
print(a)
print(b)
raise SystemExit(0 if a == b else 1)
