"""Demonstration (triage only) for known finding F10, property C14: names bound by ':=' written
directly inside an argument / dictorsetmaker / subscript node are not reported as definitions."""
import ast
import sys

import parso

CODE = 'f(y := 1)\n{z := 1, 2}\na[w := 1]\n(v := 1)\n'


def main():
    tree = ast.parse(CODE)
    bound = {n.target.id for n in ast.walk(tree) if isinstance(n, ast.NamedExpr)}
    module = parso.load_grammar(version='3.10').parse(CODE)
    got = {}
    for names in module.get_used_names().values():
        for n in names:
            got[n.value] = n.is_definition()
    print('CPython binds: %s' % sorted(bound))
    print('parso is_definition: %s' % got)
    missed = sorted(b for b in bound if not got.get(b))
    print('missed: %s' % missed)
    return 1 if missed else 0


if __name__ == '__main__':
    sys.exit(main())
