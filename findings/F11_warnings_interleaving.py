"""Demonstration (triage only, not a registered check) for known finding F11 / property C18.

_StringChecks.is_issue wraps codecs.*escape_decode in warnings.catch_warnings() +
warnings.filterwarnings('ignore').  catch_warnings saves and restores the *process-wide*
filter list and is documented as not thread-safe.  With two overlapping iter_errors() calls

    A: enter catch_warnings   (saves filters F0, installs a copy F0')
    A: filterwarnings('ignore')          -> current list F0' + ignore
    B: enter catch_warnings   (saves the *current* list, i.e. A's list with 'ignore')
    A: exit                   (restores F0)
    B: exit                   (restores A's list with 'ignore')

the process is left with an 'ignore everything' filter after both calls returned: shared state
is modified by issue listing, and every later warning of the program is silently dropped.
The interleaving is forced with two events hooked into warnings.filterwarnings.
"""
import sys
import threading
import warnings

import parso

CODE = "x = 'abc'\n"

a_installed = threading.Event()
b_entered = threading.Event()
a_done = threading.Event()
orig_filterwarnings = warnings.filterwarnings
orig_enter = warnings.catch_warnings.__enter__
role = threading.local()


def filterwarnings(*args, **kwargs):
    orig_filterwarnings(*args, **kwargs)
    if getattr(role, 'name', None) == 'A':
        a_installed.set()          # A has installed 'ignore'
        b_entered.wait(5)          # ... and stays inside the with-block until B has entered
    elif getattr(role, 'name', None) == 'B':
        a_done.wait(5)             # B leaves only after A has left


def enter(self):
    if getattr(role, 'name', None) == 'B':
        a_installed.wait(5)
    r = orig_enter(self)
    if getattr(role, 'name', None) == 'B':
        b_entered.set()
    return r


def main():
    grammar = parso.load_grammar()
    module_a = grammar.parse(CODE)
    module_b = grammar.parse(CODE)
    before = list(warnings.filters)
    warnings.filterwarnings = filterwarnings
    warnings.catch_warnings.__enter__ = enter

    def run(name, module):
        role.name = name
        list(grammar.iter_errors(module))
        if name == 'A':
            a_done.set()
    ta = threading.Thread(target=run, args=('A', module_a))
    tb = threading.Thread(target=run, args=('B', module_b))
    ta.start(); tb.start(); ta.join(); tb.join()
    warnings.filterwarnings = orig_filterwarnings
    warnings.catch_warnings.__enter__ = orig_enter
    after = list(warnings.filters)
    leaked = [f for f in after if f not in before]
    print('filters before: %d, after: %d, leaked: %r' % (len(before), len(after), leaked))
    if leaked:
        print('DEMONSTRATED: process-wide warning filters modified after both iter_errors() calls returned')
        return 1
    print('not reproduced')
    return 0


if __name__ == '__main__':
    sys.exit(main())
