"""F18 (fixed in 92f653a): [X] and X* reused the start / end state of X for the skip arc.

Run with /venv/bin/python against a tree *without* the fix: exits 1 and prints the wrongly accepted sentences.
"""
from parso.pgen2.generator import generate_grammar
from parso.python.token import PythonTokenTypes


def accepts(bnf, word):
    dfas = generate_grammar(bnf, PythonTokenTypes).nonterminal_to_dfas['foo']
    st = dfas[0]
    for sym in word.split():
        st = st.arcs.get("'%s'" % sym)
        if st is None:
            return False
    return st.is_final


CASES = [
    ("foo: ('x'+ 'y')* 'z'\n", 'x z', False), ("foo: ('x'+ 'y')* 'z'\n", 'x y z', True), ("foo: ('x'+ 'y')* 'z'\n", 'z', True),
    ("foo: ['x'+ 'y'] 'z'\n", 'x z', False), ("foo: ['x'+ 'y'] 'z'\n", 'x y z', True),
    ("foo: ['y' 'x'*] 'z'\n", 'x z', False), ("foo: ['y' 'x'*] 'z'\n", 'y x x z', True),
]
bad = [(b.strip(), w, want) for b, w, want in CASES if accepts(b, w) != want]
for b, w, want in bad:
    print('%-24s %-8s should be %s' % (b, w, 'accepted' if want else 'rejected'))
raise SystemExit(1 if bad else 0)
