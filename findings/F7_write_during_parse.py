"""Demonstration (triage only) for known findings F7 / F7b, property C16.

A writer that lands between file_io.read() and try_to_save_module() is recorded as already seen:
the cache entry (memory: change_time, disk: the pickle's own mtime) is newer than the file's mtime,
so every later parse returns the tree of the *old* content.
"""
import os
import sys
import tempfile
import time

import parso
from parso import cache
from parso.file_io import FileIO


class RacyFileIO(FileIO):
    """read() returns the old content, then another process rewrites the file."""

    def read(self):
        data = super().read()
        with open(self.path, 'w') as f:
            f.write('new_content = 2\n')
        t = time.time() - 5          # any mtime later than the first stat and not in the future
        os.utime(self.path, (t, t))
        return data


def main():
    d = tempfile.mkdtemp()
    path = os.path.join(d, 'mod.py')
    with open(path, 'w') as f:
        f.write('old_content = 1\n')
    t = time.time() - 100
    os.utime(path, (t, t))
    cache_dir = os.path.join(d, 'cache')
    grammar = parso.load_grammar()
    first = grammar.parse(file_io=RacyFileIO(path), cache=True, cache_path=cache_dir)
    assert first.get_code() == 'old_content = 1\n'
    current = open(path).read()
    second = grammar.parse(path=path, cache=True, cache_path=cache_dir)
    mem_stale = second.get_code() != current
    cache.parser_cache.clear()          # "new process": only the pickle is left
    third = grammar.parse(path=path, cache=True, cache_path=cache_dir)
    disk_stale = third.get_code() != current
    print('file now contains %r' % current)
    print('memory cache returns %r -> stale=%s' % (second.get_code(), mem_stale))
    print('disk cache returns   %r -> stale=%s' % (third.get_code(), disk_stale))
    return 1 if (mem_stale or disk_stale) else 0


if __name__ == '__main__':
    sys.exit(main())
